//! Reference interpreter: the *documented* per-tick semantics of every operator, evaluated directly
//! on the AST. Written from the operator doc comments (`dfir_lang/src/graph/ops/*.rs`), DESIGN.md
//! Appendix A and — where those leave a choice open — the behaviour pinned by
//! `dfir_rs/tests/surface_*.rs` (see `SEMANTIC_DECISIONS`). It knows nothing about subgraphs,
//! pull/push or handoffs: every operator sees the complete same-tick output of its producers.
//!
//! Model. Every operator input with a persistence argument owns a *state* that collects what
//! arrived on it during its lifetime (`'tick`: cleared at the end of every tick, `'static`: kept).
//! In every tick the operator emits its documented function of the current states.

use std::collections::{BTreeMap, HashMap, HashSet};

use crate::ast::*;
use crate::fns::{self, It};
use crate::run::Step;

pub const SEMANTIC_DECISIONS: &[&str] = &[
    "join/join_multiset/cross_join*/join_fused*/join_multiset_half with a 'static side: the whole join of the current per-side states is re-emitted every tick (property text 'join of all persisted inputs'; pinned by surface_join.rs::replay_static/static_static, surface_join_multiset_half.rs)",
    "join and cross_join treat each side as a set (doc: 'eliminates duplicated values in its inputs'); the *_multiset variants multiply multiplicities",
    "anti_join/difference with 'static pos: all positives of the lifetime are replayed every tick and filtered by the current negative set (pinned by surface_difference.rs::test_diff_multiset_static)",
    "fold/lattice_fold emit exactly one value in every tick, also on ticks without input and for 'static (pinned by surface_handoff.rs::test_singleton_multi_tick_consumed, surface_fold.rs::test_fold_static_join); reduce/lattice_reduce emit nothing while their state is empty and re-emit the 'static accumulator on ticks without input (Appendix A); the *_no_replay variants emit only on ticks with new input (doc)",
    "fold_keyed/reduce_keyed emit one pair per key present in the state every tick ('static: all keys ever seen)",
    "fold_no_replay/reduce_no_replay: 'does not replay the accumulated value on ticks where there is no new input' is read as: no *re*-emission; the (initial) accumulator is still emitted once in tick 0 even without input, as the implementation deliberately special-cases tick 0 (the doc sentence is silent about the first emission; no repository test pins it)",
    "join_fused_rhs::<'a,'b>: 'a applies to the fused right-hand side (port 1) and 'b to the streaming left-hand side (port 0), i.e. mirrored w.r.t. the ports (docs only say 'see join_fused_lhs'; pinned by surface_join_fused.rs::static_tick_lhs_streaming_rhs_blocking)",
    "scan: a `None` stops the output for the rest of the tick and later items of that tick are not folded (doc: 'terminate the stream'; pinned by surface_scan.rs::test_scan_early_termination); whether a 'static scan resumes on the next tick is not documented, so 'static scans only use closures that are monotone (once None, always None)",
    "sort_by_key uses an unstable sort on a field reference: outputs of non-injective keys are projected to the key by the harness before comparison",
    "zip: pairs by position over what each side holds in its lifetime; a 'tick side drops its excess at tick end, a 'static side keeps it (doc); zip_longest only accepts 'tick",
    "cross_singleton: the first item the single side yields in its lifetime ('static: first ever; pinned by surface_cross_singleton.rs::test_static_persistence)",
    "multiset_delta compares with the immediately preceding tick, also when that tick was empty",
    "state/state_by emit one clone of the lattice on [state] in every tick, also without input (dfir_pipes StatePush doc 'on finalize'; pinned by surface_singleton.rs::test_state)",
    "persist/defer_tick/union/hash-based operators/anti_join/difference/multiset_delta: emission order is not documented; compared as multisets. handoff() keeps the order (Vec buffer; pinned by surface_handoff.rs::test_handoff_basic)",
    "operators that may stop pulling an input early (chain_first_n, cross_singleton, a scan that returns None) are only fed through a handoff(), because the effect of not pulling on upstream stateful operators is undocumented (and differs between pull and push realisations)",
    "root-level loop { } block: fires at most once per tick, iff a batch() entry received data or a non-lazy defer_tick inside it holds data; defer_tick_lazy data inside it waits until the block next fires (defer_tick/batch_lazy docs; pinned by surface_loop.rs::test_root_loop_defer_tick, test_root_loop_defer_tick_lazy, test_loop_gating_basic)",
    "run_available_sync always runs at least one tick, then continues while a non-lazy defer_tick holds data or a wake-up (context.waker()) fired during the last tick (Dfir::run_available docs, defer_tick/defer_tick_lazy docs; pinned by surface_scheduling.rs::test_tick_loop, test_nospin_issue_961)",
];

#[derive(Default, Clone)]
struct NS {
    a: Vec<It>,
    b: Vec<It>,
    acc: Option<It>,
    n: usize,
    seen: HashSet<It>,
    ka: BTreeMap<i64, i64>,
    kb: BTreeMap<i64, i64>,
    keys: HashSet<i64>,
    prev: Vec<It>,
    max: Option<i64>,
    single: Option<It>,
    buf: Vec<It>,
}

pub struct RefOut {
    pub sinks: Vec<Vec<(u64, It)>>,
    /// `(tick counter before, after)` for every driver step.
    pub steps: Vec<(u64, u64)>,
    pub total_ticks: u64,
    /// Ticks that ran although no source item arrived and that produced sink output (deferred or
    /// replayed data), for the non-triviality rule.
    pub nonempty_ticks: usize,
    /// `true` if some `run_available` step ran more than one tick.
    pub multi_tick_avail: bool,
    /// lazy data was pending when a run_available step stopped
    pub lazy_held: bool,
    pub wake_fired: bool,
    /// a run_available step needed >= 2 ticks because a defer_tick inside the root-level loop held data
    pub loop_defer_multi: bool,
    /// a run_available step stopped while only lazy data inside the root-level loop was pending
    pub loop_lazy_held: bool,
}

fn agg_apply(a: Agg, m: &mut BTreeMap<i64, i64>, k: i64, v: i64) {
    match a {
        Agg::Reduce(f) => match m.get_mut(&k) {
            None => {
                m.insert(k, v);
            }
            Some(acc) => fns::kfoldf(f, acc, v),
        },
        Agg::Fold(f) => {
            let acc = m.entry(k).or_insert_with(|| fns::kfold_init(f));
            fns::kfoldf(f, acc, v);
        }
        Agg::FoldFrom(f) => match m.get_mut(&k) {
            None => {
                m.insert(k, fns::kfold_from(f, v));
            }
            Some(acc) => fns::kfoldf(f, acc, v),
        },
    }
}

fn dedup(v: &[It]) -> Vec<It> {
    let mut seen = HashSet::new();
    v.iter().copied().filter(|x| seen.insert(*x)).collect()
}

pub struct Machine<'a> {
    p: &'a Program,
    order: Vec<usize>,
    st: Vec<NS>,
    pub tick: u64,
    pub sinks: Vec<Vec<(u64, It)>>,
    woke: bool,
    pub wake_ever: bool,
    pub loop_fired: bool,
}

impl<'a> Machine<'a> {
    pub fn new(p: &'a Program) -> Self {
        Machine {
            p,
            order: p.topo(),
            st: vec![NS::default(); p.nodes.len()],
            tick: 0,
            sinks: vec![vec![]; p.nsinks],
            woke: false,
            wake_ever: false,
            loop_fired: false,
        }
    }

    /// Non-lazy deferred data waiting for the next tick?
    pub fn pending_nonlazy(&self) -> bool {
        self.p.nodes.iter().enumerate().any(|(i, n)| n.op == Op::DeferTick && !self.st[i].buf.is_empty())
    }
    /// Non-lazy deferred data pending inside the root-level loop block?
    pub fn pending_nonlazy_in_loop(&self) -> bool {
        self.p.nodes.iter().enumerate().any(|(i, n)| n.op == Op::DeferTick && self.p.node_in_loop(i) && !self.st[i].buf.is_empty())
    }
    pub fn pending_lazy_in_loop(&self) -> bool {
        self.p.nodes.iter().enumerate().any(|(i, n)| n.op == Op::DeferTickLazy && self.p.node_in_loop(i) && !self.st[i].buf.is_empty())
    }
    pub fn pending_lazy(&self) -> bool {
        self.p.nodes.iter().enumerate().any(|(i, n)| n.op == Op::DeferTickLazy && !self.st[i].buf.is_empty())
    }
    pub fn woke(&self) -> bool {
        self.woke
    }

    /// Run one tick with the given per-source input. Returns the number of sink items emitted.
    pub fn run_tick(&mut self, inputs: &[Vec<It>]) -> usize {
        let p = self.p;
        let t = self.tick;
        self.woke = false;
        let mut emitted = 0usize;
        let mut outs: Vec<Vec<Vec<It>>> = p.nodes.iter().map(|n| vec![vec![]; n.op.n_out()]).collect();
        // deferred data of the previous tick is available from the start of the tick
        for (i, nd) in p.nodes.iter().enumerate() {
            if nd.op.is_defer() {
                outs[i][0] = std::mem::take(&mut self.st[i].buf);
            }
        }
        let order = self.order.clone();
        // A root-level `loop { }` block is fused with the tick and fires at most once per tick: iff a
        // (non-lazy) `batch()` entry received data or a non-lazy `defer_tick` inside it holds data.
        // If it does not fire, nothing inside runs and lazily deferred data stays buffered until it
        // does (pinned by surface_loop.rs::test_root_loop_defer_tick / _lazy).
        let mut fire = true;
        for pass in 0..2 {
        if pass == 1 {
            if !p.has_loop() {
                break;
            }
            fire = p.nodes.iter().enumerate().any(|(i, nd)| {
                p.node_in_loop(i)
                    && match nd.op {
                        Op::Batch => !outs[nd.ins[0].0][nd.ins[0].1].is_empty(),
                        Op::DeferTick => !outs[i][0].is_empty(),
                        _ => false,
                    }
            });
            if !fire {
                for (i, nd) in p.nodes.iter().enumerate() {
                    if p.node_in_loop(i) && nd.op.is_defer() {
                        self.st[i].buf = std::mem::take(&mut outs[i][0]);
                    }
                }
                break;
            }
        }
        for &i in &order {
            if p.node_in_loop(i) != (pass == 1) {
                continue;
            }
            let nd = &p.nodes[i];
            if nd.op.is_defer() {
                continue;
            }
            let inp = |k: usize| -> Vec<It> {
                let (j, port) = nd.ins[k];
                outs[j][port].clone()
            };
            let s = &mut self.st[i];
            let o: Vec<Vec<It>> = match &nd.op {
                Op::Source(k) => vec![inputs.get(*k).cloned().unwrap_or_default()],
                Op::Map(f) => vec![inp(0).into_iter().map(|x| fns::mapf(*f, x)).collect()],
                Op::Filter(f) => vec![inp(0).into_iter().filter(|x| fns::pred(*f, x)).collect()],
                Op::FilterMap(f) => vec![inp(0).into_iter().filter_map(|x| fns::filter_mapf(*f, x)).collect()],
                Op::FlatMap(f) | Op::Flatten(f) => {
                    vec![inp(0).into_iter().flat_map(|x| fns::flatf(*f, x)).collect()]
                }
                Op::Inspect(k) => {
                    let v = inp(0);
                    for x in &v {
                        self.sinks[*k].push((t, *x));
                        emitted += 1;
                    }
                    vec![v]
                }
                Op::Identity | Op::Handoff | Op::Batch => vec![inp(0)],
                Op::Decay => vec![inp(0).into_iter().filter(fns::decay_keep).map(fns::decay).collect()],
                Op::Enumerate(_) => {
                    let mut v = vec![];
                    for x in inp(0) {
                        v.push(fns::norm_enum(s.n, x));
                        s.n += 1;
                    }
                    vec![v]
                }
                Op::Unique(_) => vec![inp(0).into_iter().filter(|x| s.seen.insert(*x)).collect()],
                Op::Persist => {
                    s.a.extend(inp(0));
                    vec![s.a.clone()]
                }
                Op::MultisetDelta => {
                    let cur = inp(0);
                    let mut budget: HashMap<It, usize> = HashMap::new();
                    for x in &s.prev {
                        *budget.entry(*x).or_default() += 1;
                    }
                    let mut v = vec![];
                    for x in &cur {
                        match budget.get_mut(x) {
                            Some(c) if *c > 0 => *c -= 1,
                            _ => v.push(*x),
                        }
                    }
                    s.b = cur; // becomes `prev` at tick end
                    vec![v]
                }
                Op::Sort => {
                    let mut v = inp(0);
                    v.sort();
                    vec![v]
                }
                Op::SortByKey(f) => {
                    let mut v: Vec<It> = inp(0).into_iter().map(|x| fns::sort_proj(*f, x)).collect();
                    v.sort();
                    vec![v]
                }
                Op::Fold(_, f) => {
                    let acc = s.acc.get_or_insert_with(|| fns::fold_init(*f));
                    for x in inp(0) {
                        fns::foldf(*f, acc, x);
                    }
                    vec![vec![*acc]]
                }
                Op::FoldNoReplay(_, f) => {
                    let v = inp(0);
                    let acc = s.acc.get_or_insert_with(|| fns::fold_init(*f));
                    for x in &v {
                        fns::foldf(*f, acc, *x);
                    }
                    // first emission in tick 0 (not a *re*play), afterwards only with new input
                    vec![if v.is_empty() && t != 0 { vec![] } else { vec![*acc] }]
                }
                Op::Reduce(_, f) | Op::ReduceNoReplay(_, f) => {
                    let v = inp(0);
                    for x in &v {
                        match s.acc.as_mut() {
                            None => s.acc = Some(*x),
                            Some(acc) => fns::foldf(*f, acc, *x),
                        }
                    }
                    let replay = matches!(nd.op, Op::Reduce(..));
                    vec![match s.acc {
                        Some(acc) if replay || !v.is_empty() || t == 0 => vec![acc],
                        _ => vec![],
                    }]
                }
                Op::FoldVec(_) => {
                    s.a.extend(inp(0));
                    vec![s.a.clone()]
                }
                Op::FoldKeyed(_, f) => {
                    for (k, v) in inp(0) {
                        let acc = s.ka.entry(k).or_insert_with(|| fns::kfold_init(*f));
                        fns::kfoldf(*f, acc, v);
                    }
                    vec![s.ka.iter().map(|(k, v)| (*k, *v)).collect()]
                }
                Op::ReduceKeyed(_, f) => {
                    for (k, v) in inp(0) {
                        agg_apply(Agg::Reduce(*f), &mut s.ka, k, v);
                    }
                    vec![s.ka.iter().map(|(k, v)| (*k, *v)).collect()]
                }
                Op::Scan(_, f) => {
                    let acc = s.acc.get_or_insert_with(|| fns::fold_init(*f));
                    let mut v = vec![];
                    for x in inp(0) {
                        match fns::scanf(*f, acc, x) {
                            Some(y) => v.push(y),
                            None => break,
                        }
                    }
                    vec![v]
                }
                Op::LatticeFold(_, Lat::Max) => {
                    let m = s.max.get_or_insert(i64::MIN);
                    for x in inp(0) {
                        *m = (*m).max(x.1);
                    }
                    vec![vec![fns::nm(0, *m)]]
                }
                Op::LatticeReduce(_, Lat::Max) => {
                    for x in inp(0) {
                        s.max = Some(s.max.map_or(x.1, |m| m.max(x.1)));
                    }
                    vec![s.max.map(|m| fns::nm(0, m)).into_iter().collect()]
                }
                Op::LatticeFold(_, Lat::Set) => {
                    s.seen.extend(inp(0));
                    vec![s.seen.iter().copied().collect()]
                }
                Op::LatticeReduce(_, Lat::Set) => {
                    let v = inp(0);
                    if !v.is_empty() {
                        s.n = 1;
                    }
                    s.seen.extend(v);
                    vec![if s.n == 1 { s.seen.iter().copied().collect() } else { vec![] }]
                }
                Op::DeferTick | Op::DeferTickLazy => unreachable!(),
                Op::Join(..) | Op::JoinMultiset(..) => {
                    s.a.extend(inp(0));
                    s.b.extend(inp(1));
                    let (l, r) = if matches!(nd.op, Op::Join(..)) {
                        (dedup(&s.a), dedup(&s.b))
                    } else {
                        (s.a.clone(), s.b.clone())
                    };
                    let mut v = vec![];
                    for x in &l {
                        for y in &r {
                            if x.0 == y.0 {
                                v.push(fns::norm_join(x.0, x.1, y.1));
                            }
                        }
                    }
                    vec![v]
                }
                Op::JoinFused(_, _, ax, ay) => {
                    for (k, v) in inp(0) {
                        agg_apply(*ax, &mut s.ka, k, v);
                    }
                    for (k, v) in inp(1) {
                        agg_apply(*ay, &mut s.kb, k, v);
                    }
                    let mut v = vec![];
                    for (k, a) in &s.ka {
                        if let Some(b) = s.kb.get(k) {
                            v.push(fns::norm_join(*k, *a, *b));
                        }
                    }
                    vec![v]
                }
                Op::JoinFusedLhs(_, _, ax) => {
                    for (k, v) in inp(0) {
                        agg_apply(*ax, &mut s.ka, k, v);
                    }
                    s.b.extend(inp(1));
                    let mut v = vec![];
                    for y in &s.b {
                        if let Some(a) = s.ka.get(&y.0) {
                            v.push(fns::norm_join(y.0, *a, y.1));
                        }
                    }
                    vec![v]
                }
                Op::JoinFusedRhs(_, _, ay) => {
                    s.a.extend(inp(0));
                    for (k, v) in inp(1) {
                        agg_apply(*ay, &mut s.kb, k, v);
                    }
                    let mut v = vec![];
                    for x in &s.a {
                        if let Some(b) = s.kb.get(&x.0) {
                            v.push(fns::norm_join(x.0, x.1, *b));
                        }
                    }
                    vec![v]
                }
                Op::JoinMultisetHalf(_, _, var) => {
                    s.a.extend(inp(0)); // build
                    s.b.extend(inp(1)); // probe
                    let mut v = vec![];
                    for y in &s.b {
                        for x in &s.a {
                            if x.0 == y.0 {
                                v.push(fns::norm_half(*var, y.0, y.1, x.1));
                            }
                        }
                    }
                    vec![v]
                }
                Op::AntiJoin(_, _, f) => {
                    s.a.extend(inp(0));
                    s.keys.extend(inp(1).into_iter().map(|x| fns::negkey(*f, x)));
                    vec![s.a.iter().copied().filter(|x| !s.keys.contains(&x.0)).collect()]
                }
                Op::Difference(..) => {
                    s.a.extend(inp(0));
                    s.seen.extend(inp(1));
                    vec![s.a.iter().copied().filter(|x| !s.seen.contains(x)).collect()]
                }
                Op::CrossJoin(..) | Op::CrossJoinMultiset(..) => {
                    s.a.extend(inp(0));
                    s.b.extend(inp(1));
                    let (l, r) = if matches!(nd.op, Op::CrossJoin(..)) {
                        (dedup(&s.a), dedup(&s.b))
                    } else {
                        (s.a.clone(), s.b.clone())
                    };
                    let mut v = vec![];
                    for x in &l {
                        for y in &r {
                            v.push(fns::norm2(*x, *y));
                        }
                    }
                    vec![v]
                }
                Op::CrossSingleton(_) => {
                    if s.single.is_none() {
                        s.single = inp(1).first().copied();
                    }
                    vec![match s.single {
                        Some(y) => inp(0).into_iter().map(|x| fns::norm2(x, y)).collect(),
                        None => vec![],
                    }]
                }
                Op::Zip(..) => {
                    s.a.extend(inp(0));
                    s.b.extend(inp(1));
                    let n = s.a.len().min(s.b.len());
                    let l: Vec<It> = s.a.drain(..n).collect();
                    let r: Vec<It> = s.b.drain(..n).collect();
                    vec![l.into_iter().zip(r).map(|(x, y)| fns::norm2(x, y)).collect()]
                }
                Op::ZipLongest(_) => {
                    let (l, r) = (inp(0), inp(1));
                    let mut v = vec![];
                    for k in 0..l.len().max(r.len()) {
                        v.push(match (l.get(k), r.get(k)) {
                            (Some(x), Some(y)) => fns::norm2(*x, *y),
                            (Some(x), None) => fns::norm_left(*x),
                            (None, Some(y)) => fns::norm_right(*y),
                            _ => unreachable!(),
                        });
                    }
                    vec![v]
                }
                Op::Chain => {
                    let mut v = inp(0);
                    v.extend(inp(1));
                    vec![v]
                }
                Op::ChainFirstN(n) => {
                    let mut v = inp(0);
                    v.extend(inp(1));
                    v.truncate(*n);
                    vec![v]
                }
                Op::DeferSignal => {
                    s.a.extend(inp(0));
                    vec![if inp(1).is_empty() { vec![] } else { std::mem::take(&mut s.a) }]
                }
                Op::Union => {
                    let mut v = vec![];
                    for k in 0..nd.ins.len() {
                        v.extend(inp(k));
                    }
                    vec![v]
                }
                Op::Partition { n, f, .. } => {
                    let mut v = vec![vec![]; *n];
                    for x in inp(0) {
                        v[fns::partf(*f, &x, *n)].push(x);
                    }
                    v
                }
                Op::DemuxEnum(f) => {
                    let mut v = vec![vec![]; 3];
                    for x in inp(0) {
                        let (port, y) = fns::dm_route(*f, x);
                        v[port].push(y);
                    }
                    v
                }
                Op::Unzip => {
                    let (mut l, mut r) = (vec![], vec![]);
                    for x in inp(0) {
                        let (a, b) = fns::to_pair(x);
                        l.push(a);
                        r.push(b);
                    }
                    vec![l, r]
                }
                Op::State(_, Lat::Max) => {
                    let m = s.max.get_or_insert(i64::MIN);
                    let mut items = vec![];
                    for x in inp(0) {
                        if x.1 > *m {
                            *m = x.1;
                            items.push(fns::nm(0, x.1));
                        }
                    }
                    vec![items, vec![fns::nm(0, *m)]]
                }
                Op::State(_, Lat::Set) | Op::StateBy(_) => {
                    let items: Vec<It> = inp(0).into_iter().filter(|x| s.seen.insert(*x)).collect();
                    vec![items, s.seen.iter().copied().collect()]
                }
                Op::RefSingleton(f) => {
                    let r = inp(1);
                    let v = inp(0);
                    if v.is_empty() {
                        vec![vec![]]
                    } else {
                        assert_eq!(r.len(), 1, "generator bug: singleton producer must yield exactly one item");
                        vec![v.into_iter().map(|x| fns::ref_single(*f, x, &r[0])).collect()]
                    }
                }
                Op::RefHandoff(f) => {
                    let r = inp(1);
                    vec![inp(0).into_iter().map(|x| fns::ref_vec(*f, x, &r)).collect()]
                }
                Op::Sink(k, w) => {
                    for x in inp(0) {
                        self.sinks[*k].push((t, x));
                        emitted += 1;
                        if let Some(f) = w {
                            if fns::wake_pred(*f, &x) {
                                self.woke = true;
                                self.wake_ever = true;
                            }
                        }
                    }
                    vec![]
                }
                Op::Null => vec![],
            };
            outs[i] = o;
        }
        }
        self.loop_fired = fire && p.has_loop();
        // tick end: deferred data moves into the deferral buffers; 'tick state is dropped
        for (i, nd) in p.nodes.iter().enumerate() {
            if nd.op.is_defer() {
                if p.node_in_loop(i) && !fire {
                    continue; // the loop did not run: its buffers are untouched
                }
                let (j, port) = nd.ins[0];
                self.st[i].buf = outs[j][port].clone();
                continue;
            }
            let s = &mut self.st[i];
            if let Op::MultisetDelta = nd.op {
                s.prev = std::mem::take(&mut s.b);
                continue;
            }
            let mut ps = nd.op.persistence();
            if let Op::JoinFusedRhs(..) = nd.op {
                // first argument = fused (right) side, second = streaming (left) side
                ps.swap(0, 1);
            }
            match ps.len() {
                1 if ps[0] == P::Tick => *s = NS::default(),
                2 => {
                    // side 0 state: a / ka ; side 1 state: b / kb / keys / seen(difference)
                    if ps[0] == P::Tick {
                        s.a.clear();
                        s.ka.clear();
                    }
                    if ps[1] == P::Tick {
                        s.b.clear();
                        s.kb.clear();
                        s.keys.clear();
                        s.seen.clear();
                    }
                }
                _ => {}
            }
        }
        self.tick += 1;
        emitted
    }
}

/// Interpret a whole history (driver steps as in `run::drive`). `cap` bounds the ticks of one
/// `run_available` step (a generator bug if reached: cycles must decay).
pub fn interpret(p: &Program, steps: &[Step], cap: u64) -> RefOut {
    let mut m = Machine::new(p);
    let mut out_steps = vec![];
    let mut nonempty_ticks = 0;
    let mut multi = false;
    let mut lazy_held = false;
    let mut loop_defer_multi = false;
    let mut loop_lazy_held = false;
    for st in steps {
        let before = m.tick;
        let e = m.run_tick(&st.inputs);
        if e > 0 {
            nonempty_ticks += 1;
        }
        if st.avail {
            let empty: Vec<Vec<It>> = vec![vec![]; p.nsrc];
            let mut n = 1;
            while m.pending_nonlazy() || m.woke() {
                assert!(n < cap, "generator bug: program {} does not quiesce", p.id);
                if m.pending_nonlazy_in_loop() {
                    loop_defer_multi = true;
                }
                let e = m.run_tick(&empty);
                if e > 0 {
                    nonempty_ticks += 1;
                }
                n += 1;
                multi = true;
            }
            if m.pending_lazy() {
                lazy_held = true;
            }
            if m.pending_lazy_in_loop() {
                loop_lazy_held = true;
            }
        }
        out_steps.push((before, m.tick));
    }
    RefOut {
        total_ticks: m.tick,
        steps: out_steps,
        nonempty_ticks,
        multi_tick_avail: multi,
        lazy_held,
        wake_fired: m.wake_ever,
        loop_defer_multi,
        loop_lazy_held,
        sinks: m.sinks,
    }
}
