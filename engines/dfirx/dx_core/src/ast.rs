//! Program ASTs: a flat list of operator nodes over the uniform item type `(i64, i64)`.
//! Cycles exist only through `DeferTick`/`DeferTickLazy` nodes. Compiled into `build.rs` too.

use crate::fns;

#[derive(Clone, Copy, Debug, PartialEq, Eq, Hash, PartialOrd, Ord)]
pub enum P {
    Tick,
    Static,
}
impl P {
    pub fn s(self) -> &'static str {
        match self {
            P::Tick => "'tick",
            P::Static => "'static",
        }
    }
}

/// Lattice used by state/lattice_fold/lattice_reduce nodes.
#[derive(Clone, Copy, Debug, PartialEq, Eq, Hash, PartialOrd, Ord)]
pub enum Lat {
    /// `Max<i64>` over the value field.
    Max,
    /// `SetUnionHashSet<It>`.
    Set,
}

/// Aggregator of a fused join side.
#[derive(Clone, Copy, Debug, PartialEq, Eq, Hash, PartialOrd, Ord)]
pub enum Agg {
    Reduce(u8),
    Fold(u8),
    FoldFrom(u8),
}
impl Agg {
    /// Is the aggregate independent of the arrival order?
    pub fn commutative(self) -> bool {
        match self {
            Agg::Reduce(f) => fns::kreduce_commutative(f),
            Agg::Fold(f) | Agg::FoldFrom(f) => fns::kfold_commutative(f),
        }
    }
    pub fn f(self) -> u8 {
        match self {
            Agg::Reduce(f) | Agg::Fold(f) | Agg::FoldFrom(f) => f,
        }
    }
}

#[derive(Clone, Debug, PartialEq, Eq, Hash)]
pub enum Op {
    /// `source_stream` over channel `i`.
    Source(usize),
    // ---- unary, stateless
    Map(u8),
    Filter(u8),
    FilterMap(u8),
    FlatMap(u8),
    /// `map(to vec) -> flatten()`
    Flatten(u8),
    /// `inspect` recording into sink `i`.
    Inspect(usize),
    Identity,
    /// the `handoff()` pseudo-operator
    Handoff,
    /// `filter(decay_keep) -> map(decay)`: harness composite used in deferral cycles
    Decay,
    /// `batch()`: entry of a root-level `loop { }` block (the node is inside, its input outside)
    Batch,
    // ---- unary, stateful
    Enumerate(P),
    Unique(P),
    Persist,
    MultisetDelta,
    Sort,
    SortByKey(u8),
    Fold(P, u8),
    FoldNoReplay(P, u8),
    Reduce(P, u8),
    ReduceNoReplay(P, u8),
    /// `fold(Vec::new, push) -> flatten()`
    FoldVec(P),
    FoldKeyed(P, u8),
    ReduceKeyed(P, u8),
    Scan(P, u8),
    LatticeFold(P, Lat),
    LatticeReduce(P, Lat),
    DeferTick,
    DeferTickLazy,
    // ---- binary (ins[0], ins[1])
    Join(P, P),
    JoinMultiset(P, P),
    JoinFused(P, P, Agg, Agg),
    JoinFusedLhs(P, P, Agg),
    JoinFusedRhs(P, P, Agg),
    /// ins[0] = build, ins[1] = probe; u8 = normaliser variant
    JoinMultisetHalf(P, P, u8),
    /// ins[0] = pos, ins[1] = neg (keys extracted by `negkey(u8)`)
    AntiJoin(P, P, u8),
    /// ins[0] = pos, ins[1] = neg
    Difference(P, P),
    CrossJoin(P, P),
    CrossJoinMultiset(P, P),
    /// ins[0] = input, ins[1] = single
    CrossSingleton(P),
    Zip(P, P),
    ZipLongest(P),
    Chain,
    ChainFirstN(usize),
    /// ins[0] = input, ins[1] = signal
    DeferSignal,
    /// n-ary
    Union,
    // ---- multi-output
    Partition { n: usize, f: u8, named: bool },
    DemuxEnum(u8),
    Unzip,
    /// outputs: 0 = items, 1 = state
    State(P, Lat),
    StateBy(P),
    // ---- references: ins[0] = stream, ins[1] = referenced producer
    RefSingleton(u8),
    RefHandoff(u8),
    // ---- sinks
    /// `for_each` recording `(tick, item)` into sink `i`; `Some(f)`: also fires
    /// `context.waker()` when `wake_pred(f, item)`.
    Sink(usize, Option<u8>),
    Null,
}

pub type Edge = (usize, usize);

#[derive(Clone, Debug, PartialEq, Eq, Hash)]
pub struct Node {
    pub op: Op,
    pub ins: Vec<Edge>,
}

#[derive(Clone, Copy, Debug, PartialEq, Eq, Hash, PartialOrd, Ord)]
pub enum Mode {
    /// C21: operator catalogue coverage
    Ops,
    /// C23: blocking inputs behind deep same-tick feeders
    Deep,
    /// C24: deferral chains, cycles, wake-ups
    Defer,
}
impl Mode {
    pub fn s(self) -> &'static str {
        match self {
            Mode::Ops => "ops",
            Mode::Deep => "deep",
            Mode::Defer => "defer",
        }
    }
}

/// Direct (interpreter-independent) invariants attached by the generator; sink ids refer to
/// probe sinks placed on the named edges.
#[derive(Clone, Debug, PartialEq, Eq, Hash)]
pub enum Check {
    /// No output item of an anti_join/difference may match the negative input of its lifetime.
    /// `by_key = Some(f)`: anti_join with neg keys `negkey(f, item)`; `None`: difference (whole item).
    NegExcluded { node: usize, neg_sink: usize, out_sink: usize, neg_static: bool, by_key: Option<u8> },
    /// `sort` output of a tick = sorted input of the same tick.
    Sorted { node: usize, in_sink: usize, out_sink: usize },
    /// `fold(count)` output of a tick = number of items the input carried (this tick / so far).
    Counted { node: usize, in_sink: usize, out_sink: usize, is_static: bool },
    /// A chain of `d` non-cyclic deferrals: exit[t + d] == entry[t] (as multisets), nothing before.
    Deferred { entry_sink: usize, exit_sink: usize, d: usize },
}

#[derive(Clone, Debug, PartialEq, Eq, Hash)]
pub struct Program {
    pub id: usize,
    pub mode: Mode,
    pub nsrc: usize,
    pub nsinks: usize,
    pub nodes: Vec<Node>,
    pub checks: Vec<Check>,
    /// Feeder depth of the deep-feeder target (Deep mode), for evidence.
    pub depth: usize,
    /// Per node: does it sit inside the (single) root-level `loop { }` block? Empty = no loop.
    pub in_loop: Vec<bool>,
}

impl Op {
    pub fn n_out(&self) -> usize {
        match self {
            Op::Sink(..) | Op::Null => 0,
            Op::Partition { n, .. } => *n,
            Op::DemuxEnum(_) => 3,
            Op::Unzip | Op::State(..) | Op::StateBy(..) => 2,
            _ => 1,
        }
    }
    /// Number of inputs; `None` = variadic (union).
    pub fn n_in(&self) -> Option<usize> {
        Some(match self {
            Op::Source(_) => 0,
            Op::Union => return None,
            Op::Join(..)
            | Op::JoinMultiset(..)
            | Op::JoinFused(..)
            | Op::JoinFusedLhs(..)
            | Op::JoinFusedRhs(..)
            | Op::JoinMultisetHalf(..)
            | Op::AntiJoin(..)
            | Op::Difference(..)
            | Op::CrossJoin(..)
            | Op::CrossJoinMultiset(..)
            | Op::CrossSingleton(..)
            | Op::Zip(..)
            | Op::ZipLongest(..)
            | Op::Chain
            | Op::ChainFirstN(..)
            | Op::DeferSignal
            | Op::RefSingleton(..)
            | Op::RefHandoff(..) => 2,
            _ => 1,
        })
    }
    pub fn is_defer(&self) -> bool {
        matches!(self, Op::DeferTick | Op::DeferTickLazy)
    }
    /// The DFIR operator name this node exercises (the catalogue entry).
    pub fn name(&self) -> &'static str {
        match self {
            Op::Source(_) => "source_stream",
            Op::Map(_) => "map",
            Op::Filter(_) => "filter",
            Op::FilterMap(_) => "filter_map",
            Op::FlatMap(_) => "flat_map",
            Op::Flatten(_) => "flatten",
            Op::Inspect(_) => "inspect",
            Op::Identity => "identity",
            Op::Handoff => "handoff",
            Op::Decay => "filter",
            Op::Batch => "batch",
            Op::Enumerate(_) => "enumerate",
            Op::Unique(_) => "unique",
            Op::Persist => "persist",
            Op::MultisetDelta => "multiset_delta",
            Op::Sort => "sort",
            Op::SortByKey(_) => "sort_by_key",
            Op::Fold(..) | Op::FoldVec(_) => "fold",
            Op::FoldNoReplay(..) => "fold_no_replay",
            Op::Reduce(..) => "reduce",
            Op::ReduceNoReplay(..) => "reduce_no_replay",
            Op::FoldKeyed(..) => "fold_keyed",
            Op::ReduceKeyed(..) => "reduce_keyed",
            Op::Scan(..) => "scan",
            Op::LatticeFold(..) => "lattice_fold",
            Op::LatticeReduce(..) => "lattice_reduce",
            Op::DeferTick => "defer_tick",
            Op::DeferTickLazy => "defer_tick_lazy",
            Op::Join(..) => "join",
            Op::JoinMultiset(..) => "join_multiset",
            Op::JoinFused(..) => "join_fused",
            Op::JoinFusedLhs(..) => "join_fused_lhs",
            Op::JoinFusedRhs(..) => "join_fused_rhs",
            Op::JoinMultisetHalf(..) => "join_multiset_half",
            Op::AntiJoin(..) => "anti_join",
            Op::Difference(..) => "difference",
            Op::CrossJoin(..) => "cross_join",
            Op::CrossJoinMultiset(..) => "cross_join_multiset",
            Op::CrossSingleton(_) => "cross_singleton",
            Op::Zip(..) => "zip",
            Op::ZipLongest(_) => "zip_longest",
            Op::Chain => "chain",
            Op::ChainFirstN(_) => "chain_first_n",
            Op::DeferSignal => "defer_signal",
            Op::Union => "union",
            Op::Partition { .. } => "partition",
            Op::DemuxEnum(_) => "demux_enum",
            Op::Unzip => "unzip",
            Op::State(..) => "state",
            Op::StateBy(_) => "state_by",
            Op::RefSingleton(_) => "singleton",
            Op::RefHandoff(_) => "handoff",
            Op::Sink(..) => "for_each",
            Op::Null => "null",
        }
    }
    /// Persistence arguments as written in the program (empty if the operator takes none).
    pub fn persistence(&self) -> Vec<P> {
        match self {
            Op::Enumerate(p)
            | Op::Unique(p)
            | Op::Fold(p, _)
            | Op::FoldNoReplay(p, _)
            | Op::Reduce(p, _)
            | Op::ReduceNoReplay(p, _)
            | Op::FoldVec(p)
            | Op::FoldKeyed(p, _)
            | Op::ReduceKeyed(p, _)
            | Op::Scan(p, _)
            | Op::LatticeFold(p, _)
            | Op::LatticeReduce(p, _)
            | Op::CrossSingleton(p)
            | Op::ZipLongest(p)
            | Op::State(p, _)
            | Op::StateBy(p) => vec![*p],
            Op::Persist => vec![P::Static],
            Op::Join(a, b)
            | Op::JoinMultiset(a, b)
            | Op::JoinFused(a, b, ..)
            | Op::JoinFusedLhs(a, b, _)
            | Op::JoinFusedRhs(a, b, _)
            | Op::JoinMultisetHalf(a, b, _)
            | Op::AntiJoin(a, b, _)
            | Op::Difference(a, b)
            | Op::CrossJoin(a, b)
            | Op::CrossJoinMultiset(a, b)
            | Op::Zip(a, b) => vec![*a, *b],
            _ => vec![],
        }
    }
    /// Catalogue key `name<'p,'q>`.
    pub fn cat_key(&self) -> String {
        let ps = self.persistence();
        if ps.is_empty() {
            self.name().to_string()
        } else {
            format!("{}<{}>", self.name(), ps.iter().map(|p| p.s()).collect::<Vec<_>>().join(","))
        }
    }
    /// Does the operator's documented result depend on the arrival order of input `i`?
    /// If so the generator only feeds it order-determined streams.
    pub fn needs_ordered(&self, i: usize) -> bool {
        match self {
            Op::Enumerate(_) | Op::Scan(..) => true,
            Op::Fold(_, f) | Op::FoldNoReplay(_, f) => !fns::fold_commutative(*f),
            Op::Reduce(_, f) | Op::ReduceNoReplay(_, f) => !fns::reduce_commutative(*f),
            Op::FoldKeyed(_, f) => !fns::kfold_commutative(*f),
            Op::ReduceKeyed(_, f) => !fns::kreduce_commutative(*f),
            Op::JoinFused(_, _, a, b) => !(if i == 0 { a } else { b }).commutative(),
            Op::JoinFusedLhs(_, _, a) => i == 0 && !a.commutative(),
            Op::JoinFusedRhs(_, _, a) => i == 1 && !a.commutative(),
            Op::Zip(..) | Op::ZipLongest(_) | Op::ChainFirstN(_) => true,
            Op::CrossSingleton(_) => i == 1,
            Op::State(_, Lat::Max) => true,
            _ => false,
        }
    }
}

impl Program {
    pub fn node_in_loop(&self, i: usize) -> bool {
        self.in_loop.get(i).copied().unwrap_or(false)
    }
    pub fn has_loop(&self) -> bool {
        self.in_loop.iter().any(|b| *b)
    }
    /// Evaluation order within a tick: every node after its same-tick producers. Edges *into*
    /// deferral nodes are cross-tick and ignored.
    pub fn topo(&self) -> Vec<usize> {
        let n = self.nodes.len();
        let mut indeg = vec![0usize; n];
        let mut succ: Vec<Vec<usize>> = vec![vec![]; n];
        for (i, nd) in self.nodes.iter().enumerate() {
            if nd.op.is_defer() {
                continue;
            }
            for &(j, _) in &nd.ins {
                indeg[i] += 1;
                succ[j].push(i);
            }
        }
        let mut ready: Vec<usize> = (0..n).filter(|&i| indeg[i] == 0).collect();
        ready.reverse();
        let mut out = vec![];
        while let Some(i) = ready.pop() {
            out.push(i);
            for &s in &succ[i] {
                indeg[s] -= 1;
                if indeg[s] == 0 {
                    ready.push(s);
                }
            }
        }
        assert_eq!(out.len(), n, "program {} has a same-tick cycle", self.id);
        out
    }

    /// For every node output port: is the item order within a tick fixed by the documentation
    /// (given the documented order of its inputs)? Conservative: `false` wherever the operator
    /// docs do not state an order.
    pub fn ordered(&self) -> Vec<Vec<bool>> {
        let mut ord: Vec<Vec<bool>> = self.nodes.iter().map(|n| vec![false; n.op.n_out()]).collect();
        for i in self.topo() {
            let nd = &self.nodes[i];
            let inp = |k: usize| -> bool {
                let (j, p) = nd.ins[k];
                if nd.op.is_defer() { false } else { ord[j][p] }
            };
            let o: Vec<bool> = match &nd.op {
                Op::Source(_) => vec![true],
                Op::Map(_)
                | Op::Filter(_)
                | Op::FilterMap(_)
                | Op::FlatMap(_)
                | Op::Flatten(_)
                | Op::Inspect(_)
                | Op::Identity
                | Op::Decay
                | Op::Batch
                | Op::Enumerate(_)
                | Op::Unique(_)
                | Op::Scan(..)
                | Op::RefSingleton(_)
                | Op::RefHandoff(_) => vec![inp(0)],
                // a Vec buffer drained in push order (pinned by surface_handoff.rs)
                Op::Handoff => vec![inp(0)],
                Op::DeferTick | Op::DeferTickLazy => vec![false],
                Op::Persist | Op::MultisetDelta => vec![false],
                Op::Sort => vec![true],
                // non-injective keys are followed by a projection to the key, so ties are equal items
                Op::SortByKey(_) => vec![true],
                Op::Fold(..) | Op::FoldNoReplay(..) | Op::Reduce(..) | Op::ReduceNoReplay(..) => vec![true],
                Op::FoldVec(P::Tick) => vec![inp(0)],
                Op::FoldVec(P::Static) => vec![false],
                Op::FoldKeyed(..) | Op::ReduceKeyed(..) => vec![false],
                Op::LatticeFold(_, Lat::Max) | Op::LatticeReduce(_, Lat::Max) => vec![true],
                Op::LatticeFold(_, Lat::Set) | Op::LatticeReduce(_, Lat::Set) => vec![false],
                Op::Join(..)
                | Op::JoinMultiset(..)
                | Op::JoinFused(..)
                | Op::JoinFusedLhs(..)
                | Op::JoinFusedRhs(..)
                | Op::AntiJoin(..)
                | Op::Difference(..)
                | Op::CrossJoin(..)
                | Op::CrossJoinMultiset(..) => vec![false],
                // probe-only normaliser (variant 1) with 'tick probe: the probe sequence, each
                // item repeated once per match
                Op::JoinMultisetHalf(_, pp, v) => vec![*v % 2 == 1 && *pp == P::Tick && inp(1)],
                Op::CrossSingleton(_) => vec![inp(0)],
                Op::Zip(..) => vec![inp(0) && inp(1)],
                Op::ZipLongest(p) => vec![*p == P::Tick && inp(0) && inp(1)],
                Op::Chain | Op::ChainFirstN(_) => vec![inp(0) && inp(1)],
                Op::DeferSignal => vec![inp(0)],
                Op::Union => vec![nd.ins.len() == 1 && inp(0)],
                Op::Partition { n, .. } => vec![inp(0); *n],
                Op::DemuxEnum(_) => vec![inp(0); 3],
                Op::Unzip => vec![inp(0); 2],
                Op::State(_, Lat::Max) => vec![inp(0), true],
                Op::State(_, Lat::Set) | Op::StateBy(_) => vec![inp(0), false],
                Op::Sink(..) | Op::Null => vec![],
            };
            ord[i] = o;
        }
        ord
    }

    /// For every node output port: does it stay silent in a tick in which no source item arrives and
    /// no deferred data is delivered? (Replaying operators — fold, 'static reduce/joins, persist,
    /// state — are not quiet.) Wake-firing sinks are only attached to quiet edges so that
    /// `run_available` has a documented end.
    pub fn quiet(&self) -> Vec<Vec<bool>> {
        let mut q: Vec<Vec<bool>> = self.nodes.iter().map(|n| vec![true; n.op.n_out()]).collect();
        let topo = self.topo();
        // deferral outputs are as quiet as their (cross-tick) inputs: greatest fixpoint
        for _round in 0..self.nodes.len() + 2 {
            let before = q.clone();
            for &i in &topo {
                let nd = &self.nodes[i];
                if nd.op.is_defer() {
                    let (j, p) = nd.ins[0];
                    q[i] = vec![before[j][p]];
                    continue;
                }
                let all_in = nd.ins.iter().all(|&(j, p)| q[j][p]);
                let ps = nd.op.persistence();
                let any_static = ps.iter().any(|p| *p == P::Static);
                let o: Vec<bool> = match &nd.op {
                    Op::Source(_) => vec![true],
                    Op::Fold(..) | Op::LatticeFold(..) => vec![false],
                    Op::State(..) | Op::StateBy(_) => vec![all_in, false],
                    Op::Persist => vec![false],
                    Op::Unique(_)
                    | Op::Enumerate(_)
                    | Op::Scan(..)
                    | Op::FoldNoReplay(..)
                    | Op::ReduceNoReplay(..)
                    | Op::CrossSingleton(_) => vec![all_in],
                    Op::Sink(..) | Op::Null => vec![],
                    op => vec![all_in && !any_static; op.n_out()],
                };
                q[i] = o;
            }
            if q == before {
                break;
            }
        }
        q
    }

    /// Longest chain of consecutive deferral nodes (for the number of flush ticks).
    pub fn max_defer_chain(&self) -> usize {
        let mut best = 0;
        for (i, nd) in self.nodes.iter().enumerate() {
            if !nd.op.is_defer() {
                continue;
            }
            let mut d = 1;
            let mut cur = i;
            let mut guard = 0;
            while self.nodes[self.nodes[cur].ins[0].0].op.is_defer() && guard < 64 {
                cur = self.nodes[cur].ins[0].0;
                d += 1;
                guard += 1;
            }
            best = best.max(d);
        }
        best
    }
}
