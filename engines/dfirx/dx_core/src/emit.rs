//! AST -> Rust source containing a `dfir_syntax!` program. Used by `build.rs` (and by the runner
//! to quote the program text in evidence/violations).

use crate::ast::*;

fn consumers(p: &Program) -> Vec<Vec<usize>> {
    let mut c: Vec<Vec<usize>> = p.nodes.iter().map(|n| vec![0; n.op.n_out()]).collect();
    for nd in &p.nodes {
        for &(j, port) in &nd.ins {
            c[j][port] += 1;
        }
    }
    c
}

fn port_name(op: &Op, port: usize) -> String {
    match op {
        Op::Partition { named: true, .. } => format!("q{}", port),
        Op::Partition { .. } | Op::Unzip => format!("{}", port),
        Op::DemuxEnum(_) => ["A", "B", "C"][port].to_string(),
        Op::State(..) | Op::StateBy(_) => ["items", "state"][port].to_string(),
        _ => unreachable!(),
    }
}

/// Text naming the stream of `(node, port)` for a consumer.
fn out_ref(p: &Program, cons: &[Vec<usize>], e: Edge) -> String {
    let (j, port) = e;
    let op = &p.nodes[j].op;
    if op.n_out() == 1 {
        return format!("n{}", j);
    }
    if port_post(op, port).is_some() || cons[j][port] != 1 {
        format!("n{}p{}", j, port)
    } else {
        format!("n{}[{}]", j, port_name(op, port))
    }
}

/// Normalising pipeline appended to an output port of a multi-output operator.
fn port_post(op: &Op, port: usize) -> Option<String> {
    match op {
        Op::DemuxEnum(_) => Some(
            match port {
                0 => "map(|(k, v): (i64, i64)| fns::nm(k, v + 1))",
                1 => "map(|(k, v): (i64, i64)| fns::nm(k + 1, v))",
                _ => "map(|(x,): (It,)| x)",
            }
            .to_string(),
        ),
        Op::State(_, Lat::Max) => Some("map(|m: lattices::Max<i64>| fns::nm(0, m.into_reveal()))".to_string()),
        Op::State(_, Lat::Set) => Some(
            match port {
                0 => "map(|s: lattices::set_union::SetUnionSingletonSet<It>| s.into_reveal().0)",
                _ => "flat_map(|s: lattices::set_union::SetUnionHashSet<It>| s.into_reveal())",
            }
            .to_string(),
        ),
        Op::StateBy(_) => match port {
            0 => None,
            _ => Some("flat_map(|s: lattices::set_union::SetUnionHashSet<It>| s.into_reveal())".to_string()),
        },
        _ => None,
    }
}

fn agg(a: &Agg) -> String {
    match a {
        Agg::Reduce(f) => format!(
            "dfir_rs::dfir_pipes::pull::Reduce::new(|a: &mut i64, b: i64| fns::kfoldf({f}, a, b))"
        ),
        Agg::Fold(f) => format!(
            "dfir_rs::dfir_pipes::pull::Fold::new(|| fns::kfold_init({f}), |a: &mut i64, b: i64| fns::kfoldf({f}, a, b))"
        ),
        Agg::FoldFrom(f) => format!(
            "dfir_rs::dfir_pipes::pull::FoldFrom::new(|b: i64| fns::kfold_from({f}, b), |a: &mut i64, b: i64| fns::kfoldf({f}, a, b))"
        ),
    }
}

const NORM_JOIN: &str = "map(|(k, (a, b)): (i64, (i64, i64))| fns::norm_join(k, a, b))";
const NORM2: &str = "map(|(a, b): (It, It)| fns::norm2(a, b))";

/// Pipeline text of a single-input, single-output operator (possibly with harness normalisers).
fn unary_text(op: &Op) -> Option<String> {
    Some(match op {
        Op::Map(f) => format!("map(|x: It| fns::mapf({f}, x))"),
        Op::Filter(f) => format!("filter(|x: &It| fns::pred({f}, x))"),
        Op::FilterMap(f) => format!("filter_map(|x: It| fns::filter_mapf({f}, x))"),
        Op::FlatMap(f) => format!("flat_map(|x: It| fns::flatf({f}, x))"),
        Op::Flatten(f) => format!("map(|x: It| fns::flatf({f}, x)) -> flatten()"),
        Op::Inspect(s) => format!("inspect(|x: &It| o{s}.borrow_mut().push((context.current_tick().0, *x)))"),
        Op::Identity => "identity::<It>()".to_string(),
        Op::Handoff => "handoff()".to_string(),
        Op::Decay => "filter(|x: &It| fns::decay_keep(x)) -> map(|x: It| fns::decay(x))".to_string(),
        Op::Batch => "batch()".to_string(),
        Op::Enumerate(p) => format!("enumerate::<{}>() -> map(|(i, x): (usize, It)| fns::norm_enum(i, x))", p.s()),
        Op::Unique(p) => format!("unique::<{}>()", p.s()),
        Op::Persist => "persist::<'static>()".to_string(),
        Op::MultisetDelta => "multiset_delta()".to_string(),
        Op::Sort => "sort()".to_string(),
        Op::SortByKey(f) => match f % 3 {
            0 => format!("sort_by_key(|x: &It| &x.0) -> map(|x: It| fns::sort_proj({f}, x))"),
            1 => format!("sort_by_key(|x: &It| &x.1) -> map(|x: It| fns::sort_proj({f}, x))"),
            _ => format!("sort_by_key(|x: &It| x) -> map(|x: It| fns::sort_proj({f}, x))"),
        },
        Op::Fold(p, f) => format!(
            "fold::<{}>(|| fns::fold_init({f}), |acc: &mut It, x: It| fns::foldf({f}, acc, x))",
            p.s()
        ),
        Op::FoldNoReplay(p, f) => format!(
            "fold_no_replay::<{}>(|| fns::fold_init({f}), |acc: &mut It, x: It| fns::foldf({f}, acc, x))",
            p.s()
        ),
        Op::Reduce(p, f) => format!("reduce::<{}>(|acc: &mut It, x: It| fns::foldf({f}, acc, x))", p.s()),
        Op::ReduceNoReplay(p, f) => {
            format!("reduce_no_replay::<{}>(|acc: &mut It, x: It| fns::foldf({f}, acc, x))", p.s())
        }
        Op::FoldVec(p) => format!(
            "fold::<{}>(Vec::new, |acc: &mut Vec<It>, x: It| acc.push(x)) -> flatten()",
            p.s()
        ),
        Op::FoldKeyed(p, f) => format!(
            "fold_keyed::<{}, i64, i64>(|| fns::kfold_init({f}), |acc: &mut i64, v: i64| fns::kfoldf({f}, acc, v))",
            p.s()
        ),
        Op::ReduceKeyed(p, f) => format!(
            "reduce_keyed::<{}, i64, i64>(|acc: &mut i64, v: i64| fns::kfoldf({f}, acc, v))",
            p.s()
        ),
        Op::Scan(p, f) => format!(
            "scan::<{}>(|| fns::fold_init({f}), |acc: &mut It, x: It| fns::scanf({f}, acc, x))",
            p.s()
        ),
        Op::LatticeFold(p, Lat::Max) => format!(
            "map(|x: It| lattices::Max::new(x.1)) -> lattice_fold::<{}>(lattices::Max::<i64>::default) -> map(|m: lattices::Max<i64>| fns::nm(0, m.into_reveal()))",
            p.s()
        ),
        Op::LatticeFold(p, Lat::Set) => format!(
            "map(|x: It| lattices::set_union::SetUnionSingletonSet::new_from(x)) -> lattice_fold::<{}>(lattices::set_union::SetUnionHashSet::<It>::default) -> flat_map(|s: lattices::set_union::SetUnionHashSet<It>| s.into_reveal())",
            p.s()
        ),
        Op::LatticeReduce(p, Lat::Max) => format!(
            "map(|x: It| lattices::Max::new(x.1)) -> lattice_reduce::<{}>() -> map(|m: lattices::Max<i64>| fns::nm(0, m.into_reveal()))",
            p.s()
        ),
        Op::LatticeReduce(p, Lat::Set) => format!(
            "map(|x: It| lattices::set_union::SetUnionHashSet::<It>::new_from([x])) -> lattice_reduce::<{}>() -> flat_map(|s: lattices::set_union::SetUnionHashSet<It>| s.into_reveal())",
            p.s()
        ),
        // explicit item types: rustc cannot always infer the handoff's item type across the tick
        // boundary (the defer_tick docs recommend the type argument; defer_tick_lazy takes none)
        Op::DeferTick => "defer_tick::<It>()".to_string(),
        Op::DeferTickLazy => "defer_tick_lazy() -> identity::<It>()".to_string(),
        _ => return None,
    })
}

/// (operator text incl. normaliser, input port names, per-input prefix pipelines)
fn binary_text(op: &Op) -> Option<(String, [&'static str; 2], [Option<String>; 2])> {
    let pp = |a: &P, b: &P| format!("<{}, {}>", a.s(), b.s());
    Some(match op {
        Op::Join(a, b) => (format!("join::{}() -> {NORM_JOIN}", pp(a, b)), ["0", "1"], [None, None]),
        Op::JoinMultiset(a, b) => {
            (format!("join_multiset::{}() -> {NORM_JOIN}", pp(a, b)), ["0", "1"], [None, None])
        }
        Op::JoinFused(a, b, x, y) => (
            format!("join_fused::{}({}, {}) -> {NORM_JOIN}", pp(a, b), agg(x), agg(y)),
            ["0", "1"],
            [None, None],
        ),
        Op::JoinFusedLhs(a, b, x) => {
            (format!("join_fused_lhs::{}({}) -> {NORM_JOIN}", pp(a, b), agg(x)), ["0", "1"], [None, None])
        }
        Op::JoinFusedRhs(a, b, x) => {
            (format!("join_fused_rhs::{}({}) -> {NORM_JOIN}", pp(a, b), agg(x)), ["0", "1"], [None, None])
        }
        Op::JoinMultisetHalf(a, b, v) => (
            format!(
                "join_multiset_half::{}() -> map(|(k, (pv, bv)): (i64, (i64, i64))| fns::norm_half({v}, k, pv, bv))",
                pp(a, b)
            ),
            ["build", "probe"],
            [None, None],
        ),
        Op::AntiJoin(a, b, f) => (
            format!("anti_join::{}()", pp(a, b)),
            ["pos", "neg"],
            [None, Some(format!("map(|x: It| fns::negkey({f}, x))"))],
        ),
        Op::Difference(a, b) => (format!("difference::{}()", pp(a, b)), ["pos", "neg"], [None, None]),
        Op::CrossJoin(a, b) => (format!("cross_join::{}() -> {NORM2}", pp(a, b)), ["0", "1"], [None, None]),
        Op::CrossJoinMultiset(a, b) => {
            (format!("cross_join_multiset::{}() -> {NORM2}", pp(a, b)), ["0", "1"], [None, None])
        }
        Op::CrossSingleton(p) => {
            (format!("cross_singleton::<{}>() -> {NORM2}", p.s()), ["input", "single"], [None, None])
        }
        Op::Zip(a, b) => (format!("zip::{}() -> {NORM2}", pp(a, b)), ["0", "1"], [None, None]),
        Op::ZipLongest(_) => (
            "zip_longest() -> map(|e: dfir_rs::itertools::EitherOrBoth<It, It>| fnsx::norm_eob(e))".to_string(),
            ["0", "1"],
            [None, None],
        ),
        Op::Chain => ("chain()".to_string(), ["0", "1"], [None, None]),
        Op::ChainFirstN(n) => (format!("chain_first_n({n})"), ["0", "1"], [None, None]),
        Op::DeferSignal => ("defer_signal()".to_string(), ["input", "signal"], [None, None]),
        _ => return None,
    })
}

/// The `dfir_syntax!` body of a program (one statement per line).
pub fn dfir_text(p: &Program) -> String {
    let cons = consumers(p);
    let mut outside = String::new();
    let mut inside = String::new();
    let tee = |i: usize| if cons[i][0] > 1 { " -> tee()" } else { "" };
    for (i, nd) in p.nodes.iter().enumerate() {
        let mut s = String::new();
        let inr = |k: usize| out_ref(p, &cons, nd.ins[k]);
        match &nd.op {
            Op::Source(k) => {
                s += &format!("n{i} = source_stream(rx{k}){};\n", tee(i));
            }
            Op::Union => {
                s += &format!("n{i} = union(){};\n", tee(i));
                for k in 0..nd.ins.len() {
                    s += &format!("{} -> n{i};\n", inr(k));
                }
            }
            Op::Partition { n, f, named } => {
                if *named {
                    let names: Vec<String> = (0..*n).map(|q| format!("q{q}")).collect();
                    let arms: Vec<String> = (0..*n)
                        .map(|q| if q + 1 == *n { format!("_ => q{q}") } else { format!("{q} => q{q}") })
                        .collect();
                    s += &format!(
                        "n{i} = {} -> partition(|x: &It, [{}]| match fns::partf({f}, x, {n}) {{ {} }});\n",
                        inr(0),
                        names.join(", "),
                        arms.join(", ")
                    );
                } else {
                    s += &format!("n{i} = {} -> partition(|x: &It, n: usize| fns::partf({f}, x, n));\n", inr(0));
                }
            }
            Op::DemuxEnum(f) => {
                s += &format!("n{i} = {} -> map(|x: It| fnsx::to_dm({f}, x)) -> demux_enum::<fnsx::Dm>();\n", inr(0));
            }
            Op::Unzip => {
                s += &format!("n{i} = {} -> map(|x: It| fns::to_pair(x)) -> unzip();\n", inr(0));
            }
            Op::State(pp, Lat::Max) => {
                s += &format!(
                    "n{i} = {} -> map(|x: It| lattices::Max::new(x.1)) -> state::<{}, lattices::Max<i64>>();\n",
                    inr(0),
                    pp.s()
                );
            }
            Op::State(pp, Lat::Set) => {
                s += &format!(
                    "n{i} = {} -> map(|x: It| lattices::set_union::SetUnionSingletonSet::new_from(x)) -> state::<{}, lattices::set_union::SetUnionHashSet<It>>();\n",
                    inr(0),
                    pp.s()
                );
            }
            Op::StateBy(pp) => {
                s += &format!(
                    "n{i} = {} -> state_by::<{}, lattices::set_union::SetUnionHashSet<It>>(lattices::set_union::SetUnionSingletonSet::new_from, std::default::Default::default);\n",
                    inr(0),
                    pp.s()
                );
            }
            Op::RefSingleton(f) => {
                s += &format!("sg{i} = {} -> singleton();\n", inr(1));
                s += &format!("n{i} = {} -> map(|x: It| fns::ref_single({f}, x, #sg{i})){};\n", inr(0), tee(i));
            }
            Op::RefHandoff(f) => {
                s += &format!("hf{i} = {} -> handoff();\n", inr(1));
                s += &format!("n{i} = {} -> map(|x: It| fns::ref_vec({f}, x, #hf{i})){};\n", inr(0), tee(i));
            }
            Op::Sink(k, None) => {
                s += &format!(
                    "{} -> for_each(|x: It| o{k}.borrow_mut().push((context.current_tick().0, x)));\n",
                    inr(0)
                );
            }
            Op::Sink(k, Some(f)) => {
                s += &format!(
                    "{} -> for_each(|x: It| {{ o{k}.borrow_mut().push((context.current_tick().0, x)); if fns::wake_pred({f}, &x) {{ context.waker().wake(); }} }});\n",
                    inr(0)
                );
            }
            Op::Null => {
                s += &format!("{} -> null();\n", inr(0));
            }
            op => {
                if let Some(t) = unary_text(op) {
                    s += &format!("n{i} = {} -> {t}{};\n", inr(0), tee(i));
                } else if let Some((t, ports, pre)) = binary_text(op) {
                    s += &format!("n{i} = {t}{};\n", tee(i));
                    for k in 0..2 {
                        match &pre[k] {
                            Some(px) => s += &format!("{} -> {px} -> [{}]n{i};\n", inr(k), ports[k]),
                            None => s += &format!("{} -> [{}]n{i};\n", inr(k), ports[k]),
                        }
                    }
                } else {
                    unreachable!("no text for {:?}", op);
                }
            }
        }
        // per-port streams of multi-output operators
        if nd.op.n_out() > 1 {
            for port in 0..nd.op.n_out() {
                let c = cons[i][port];
                let post = port_post(&nd.op, port);
                let pn = port_name(&nd.op, port);
                match (post, c) {
                    (None, 1) => {}
                    (None, 0) => s += &format!("n{i}[{pn}] -> null();\n"),
                    (None, _) => s += &format!("n{i}p{port} = n{i}[{pn}] -> tee();\n"),
                    (Some(px), 0) => s += &format!("n{i}[{pn}] -> {px} -> null();\n"),
                    (Some(px), 1) => s += &format!("n{i}p{port} = n{i}[{pn}] -> {px};\n"),
                    (Some(px), _) => s += &format!("n{i}p{port} = n{i}[{pn}] -> {px} -> tee();\n"),
                }
            }
        } else if nd.op.n_out() == 1 && cons[i][0] == 0 {
            s += &format!("n{i} -> null();\n");
        }
        if p.node_in_loop(i) {
            for line in s.lines() {
                inside += "    ";
                inside += line;
                inside += "\n";
            }
        } else {
            outside += &s;
        }
    }
    if !inside.is_empty() {
        outside += "loop {\n";
        outside += &inside;
        outside += "};\n";
    }
    outside
}

/// The Rust function `prog_<id>` driving one program.
pub fn rust_fn(p: &Program) -> String {
    let mut s = String::new();
    s += &format!("#[allow(unused_variables, unused_mut, unused_parens, deprecated, clippy::all)]\npub fn prog_{}(h: &dx_core::run::History) -> dx_core::run::Trace {{\n", p.id);
    s += "    #[allow(unused_imports)]\n    use dx_core::fns::{self, It};\n    #[allow(unused_imports)]\n    use dx_core::fnsx;\n";
    for k in 0..p.nsrc {
        s += &format!("    let (tx{k}, rx{k}) = dfir_rs::util::unbounded_channel::<It>();\n");
    }
    for k in 0..p.nsinks {
        s += &format!(
            "    let out{k}: std::rc::Rc<std::cell::RefCell<Vec<(u64, It)>>> = Default::default();\n    let o{k} = out{k}.clone();\n"
        );
    }
    s += "    let mut df = dfir_rs::dfir_syntax! {\n";
    for line in dfir_text(p).lines() {
        s += "        ";
        s += line;
        s += "\n";
    }
    s += "    };\n";
    let txs: Vec<String> = (0..p.nsrc).map(|k| format!("tx{k}")).collect();
    let outs: Vec<String> = (0..p.nsinks).map(|k| format!("out{k}")).collect();
    s += &format!(
        "    dx_core::run::drive(&mut df, h, &[{}], &[{}])\n}}\n",
        txs.join(", "),
        outs.join(", ")
    );
    s
}
