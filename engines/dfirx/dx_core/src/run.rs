//! Driving a compiled program with a per-tick input history and recording what it did.

use std::cell::RefCell;
use std::rc::Rc;

use dfir_rs::scheduled::context::{Dfir, TickClosure};
use dfir_rs::tokio::sync::mpsc::UnboundedSender;

use crate::fns::It;

/// One driver step: send `inputs[s]` into source `s`, then run one tick (`run_tick_sync`) or run
/// until idle (`run_available_sync`).
#[derive(Clone, Debug, PartialEq, Eq, Hash)]
pub struct Step {
    pub inputs: Vec<Vec<It>>,
    pub avail: bool,
}

#[derive(Clone, Debug, PartialEq, Eq, Hash)]
pub struct History {
    pub steps: Vec<Step>,
    /// Abort (by panicking from the H3 runner hook) when more ticks than this are started in total.
    pub tick_cap: u64,
    /// Also report the compiled graph's operators and their pull/push colour.
    pub describe: bool,
}

#[derive(Clone, Debug, Default)]
pub struct StepObs {
    pub tick_before: u64,
    pub tick_after: u64,
    /// Ticks started during the step, counted by the H3 hook in `Dfir::run_tick` (if compiled in).
    pub ticks_started: Option<u64>,
}

#[derive(Clone, Debug, Default)]
pub struct Trace {
    /// Per sink: `(context.current_tick(), item)` in emission order.
    pub sinks: Vec<Vec<(u64, It)>>,
    pub steps: Vec<StepObs>,
    /// Panic message, if the program panicked (driving stops at that step).
    pub panic: Option<String>,
    /// `(operator name, persistence args, colour)` of every operator of the compiled graph.
    pub ops: Vec<(String, String, String)>,
}

thread_local! {
    static TICKS_STARTED: std::cell::Cell<u64> = const { std::cell::Cell::new(0) };
    static TICK_CAP: std::cell::Cell<u64> = const { std::cell::Cell::new(u64::MAX) };
}

#[allow(unexpected_cfgs)]
fn install_hook(cap: u64) -> bool {
    TICKS_STARTED.with(|c| c.set(0));
    TICK_CAP.with(|c| c.set(cap));
    #[cfg(hydro_project_hydro_verif)]
    {
        dfir_rs::scheduled::context::verif::set_point_hook(Some(Box::new(|name: &'static str| {
            if name == "run_tick:before_swap" {
                let n = TICKS_STARTED.with(|c| {
                    c.set(c.get() + 1);
                    c.get()
                });
                if n > TICK_CAP.with(|c| c.get()) {
                    panic!("dx_core tick cap exceeded");
                }
            }
        })));
        true
    }
    #[cfg(not(hydro_project_hydro_verif))]
    {
        false
    }
}

#[allow(unexpected_cfgs)]
fn remove_hook() {
    #[cfg(hydro_project_hydro_verif)]
    dfir_rs::scheduled::context::verif::set_point_hook(None);
}

pub fn drive<T: TickClosure>(
    df: &mut Dfir<T>,
    h: &History,
    txs: &[UnboundedSender<It>],
    outs: &[Rc<RefCell<Vec<(u64, It)>>>],
) -> Trace {
    let mut tr = Trace::default();
    if h.describe {
        tr.ops = describe(df);
    }
    let hooked = install_hook(h.tick_cap);
    for st in &h.steps {
        for (s, items) in st.inputs.iter().enumerate() {
            for it in items {
                txs[s].send(*it).expect("source channel closed");
            }
        }
        let before = df.current_tick().0;
        let started0 = TICKS_STARTED.with(|c| c.get());
        let r = vcommon::catch(|| {
            if st.avail {
                df.run_available_sync();
            } else {
                df.run_tick_sync();
            }
        });
        let after = df.current_tick().0;
        let started1 = TICKS_STARTED.with(|c| c.get());
        tr.steps.push(StepObs {
            tick_before: before,
            tick_after: after,
            ticks_started: if hooked { Some(started1 - started0) } else { None },
        });
        if let Err(msg) = r {
            tr.panic = Some(msg);
            break;
        }
    }
    remove_hook();
    tr.sinks = outs.iter().map(|o| o.borrow().clone()).collect();
    tr
}

fn describe<T: TickClosure>(df: &Dfir<T>) -> Vec<(String, String, String)> {
    let Some(g) = df.meta_graph() else {
        return vec![];
    };
    let colors = g.node_color_map();
    let mut out = vec![];
    for (id, _node) in g.nodes() {
        let Some(inst) = g.node_op_inst(id) else {
            continue;
        };
        let ps: Vec<&str> =
            inst.generics.persistence_args.iter().map(|p| p.to_str_lowercase()).collect();
        let col = match colors.get(id) {
            Some(c) => format!("{:?}", c),
            None => "None".to_string(),
        };
        out.push((inst.op_constraints.name.to_string(), ps.join(","), col));
    }
    out
}
