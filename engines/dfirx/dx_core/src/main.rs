fn main() {
    let args = vcommon::Args::parse();
    if args.prop == "NONE" {
        return;
    }
    eprintln!("not implemented yet");
    std::process::exit(3);
}
