include!(concat!(env!("OUT_DIR"), "/programs_0.rs"));

fn main() {
    dx_core::monitor::main(GEN_SEED, GEN_N, SHARD, PROGRAMS);
}
