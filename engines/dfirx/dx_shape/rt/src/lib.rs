//! Run-time support linked into the generated programs: the uniform item type, input histories, the event
//! recorder the generated closures write into, the pure function vocabulary shared by generated closures and
//! the reference models, and the tick driver.

use std::cell::{Cell, RefCell};
use std::collections::BTreeMap;
use std::rc::Rc;

use dfir_rs::scheduled::context::{Dfir, TickClosure};
use serde::{Deserialize, Serialize};
use vcommon::Rng;

/// The uniform item type of all generated programs.
pub type It = (i64, i64);
/// Small value domain (so that joins / differences / uniques actually collide).
pub const M: i64 = 5;
/// Modulus for accumulators.
pub const P: i64 = 1_000_003;

/// `ticks[t][source]` = items fed to that source before tick `t` runs.
#[derive(Clone, Debug, Serialize, Deserialize, PartialEq, Eq, Hash)]
pub struct History {
    pub ticks: Vec<Vec<Vec<It>>>,
}

impl History {
    pub fn n_ticks(&self) -> usize {
        self.ticks.len()
    }
    /// Random history: 1..=max_ticks ticks, per source per tick 0..=max_items items; `style` picks the
    /// density profile. `flush` empty ticks are appended.
    pub fn random(rng: &mut Rng, n_src: usize, max_ticks: usize, max_items: usize, flush: usize) -> History {
        let style = rng.below(5);
        let t = 1 + rng.below(max_ticks);
        let mut ticks = Vec::new();
        let solo = rng.below(n_src.max(1));
        for ti in 0..t {
            let mut per = Vec::new();
            for s in 0..n_src {
                let n = match style {
                    0 => rng.below(max_items + 1),                                  // uniform
                    1 => if rng.chance(2, 3) { 0 } else { 1 + rng.below(max_items) }, // sparse
                    2 => 1 + rng.below(max_items),                                  // dense
                    3 => if s == solo { rng.below(max_items + 1) } else { 0 },        // one source only
                    _ => if ti == 0 { 1 + rng.below(max_items) } else { rng.below(2) }, // burst then trickle
                };
                let dup = rng.chance(1, 3);
                let mut v: Vec<It> = Vec::new();
                for _ in 0..n {
                    if dup && !v.is_empty() && rng.chance(1, 2) {
                        let x = *rng.choose(&v);
                        v.push(x);
                    } else {
                        v.push((rng.range(0, M - 1), rng.range(0, M - 1)));
                    }
                }
                per.push(v);
            }
            ticks.push(per);
        }
        for _ in 0..flush {
            ticks.push(vec![Vec::new(); n_src]);
        }
        History { ticks }
    }
    pub fn total_items(&self) -> usize {
        self.ticks.iter().map(|t| t.iter().map(|s| s.len()).sum::<usize>()).sum()
    }
}

/// A value observed through a `#ref`.
#[derive(Clone, Debug, PartialEq, Eq, PartialOrd, Ord, Hash, Serialize, Deserialize)]
pub enum Val {
    /// `singleton()`: `&T`
    One(It),
    /// `optional()`: `&Option<T>`
    Opt(Option<It>),
    /// `handoff()`: `&Vec<T>` (canonical: sorted)
    Many(Vec<It>),
}

#[derive(Clone, Debug, PartialEq, Eq)]
pub enum EvKind {
    /// an item seen by a sink / tap
    Item,
    /// end-of-run marker of a tap (one per run of the tap's subgraph)
    End,
    /// a closure holding references processed an item and saw these values
    Read,
}

#[derive(Clone, Debug)]
pub struct Ev {
    pub tick: u32,
    pub site: u16,
    pub kind: EvKind,
    pub x: It,
    pub vals: Vec<Val>,
}

/// Per-tick body-run counts of the subgraphs of each loop, read from the runtime's own metrics.
#[derive(Clone, Debug, Default)]
pub struct LoopRuns {
    /// `[tick][loop index (textual pre-order, 1-based; 0 = top level)]` = (min, max) run-count delta over the
    /// subgraphs directly inside that loop during this tick.
    pub per_tick: Vec<BTreeMap<usize, (u64, u64)>>,
    /// parent loop index for each loop index as read from the compiled program's meta graph.
    pub parents: BTreeMap<usize, usize>,
}

pub struct RecInner {
    pub tick: Cell<u32>,
    pub evs: RefCell<Vec<Ev>>,
    /// step caps: (site, tick) -> max number of `End` events (reference + 2); empty = no caps
    pub caps: RefCell<BTreeMap<(u16, u32), u32>>,
    pub end_counts: RefCell<BTreeMap<(u16, u32), u32>>,
    pub default_cap: Cell<u32>,
    pub max_events: Cell<usize>,
    pub loop_runs: RefCell<LoopRuns>,
    pub want_loop_runs: Cell<bool>,
    pub ticks_done: Cell<u32>,
}

/// Shared recorder; the generated closures hold clones.
#[derive(Clone)]
pub struct Rec(pub Rc<RecInner>);

pub const CAP_PANIC: &str = "DXSHAPE-STEP-CAP";
pub const SIZE_PANIC: &str = "DXSHAPE-TRACE-TOO-BIG";

impl Default for Rec {
    fn default() -> Self {
        Self::new()
    }
}

impl Rec {
    pub fn new() -> Rec {
        Rec(Rc::new(RecInner {
            tick: Cell::new(0),
            evs: RefCell::new(Vec::new()),
            caps: RefCell::new(BTreeMap::new()),
            end_counts: RefCell::new(BTreeMap::new()),
            default_cap: Cell::new(u32::MAX),
            max_events: Cell::new(200_000),
            loop_runs: RefCell::new(LoopRuns::default()),
            want_loop_runs: Cell::new(false),
            ticks_done: Cell::new(0),
        }))
    }
    #[inline]
    fn push(&self, ev: Ev) {
        let mut e = self.0.evs.borrow_mut();
        if e.len() >= self.0.max_events.get() {
            drop(e);
            panic!("{}", SIZE_PANIC);
        }
        e.push(ev);
    }
    /// sink / tap item
    #[inline]
    pub fn item(&self, site: u16, x: It) {
        self.push(Ev { tick: self.0.tick.get(), site, kind: EvKind::Item, x, vals: Vec::new() });
    }
    /// end-of-run marker of tap `site`; enforces the step cap (a count, never wall-clock).
    pub fn end(&self, site: u16) {
        let t = self.0.tick.get();
        self.push(Ev { tick: t, site, kind: EvKind::End, x: (0, 0), vals: Vec::new() });
        let n = {
            let mut c = self.0.end_counts.borrow_mut();
            let n = c.entry((site, t)).or_insert(0);
            *n += 1;
            *n
        };
        let cap = self.0.caps.borrow().get(&(site, t)).copied().unwrap_or(self.0.default_cap.get());
        if n > cap {
            panic!("{}", CAP_PANIC);
        }
    }
    /// closure `site` processed `x` and saw `vals` through its references
    #[inline]
    pub fn read(&self, site: u16, x: It, vals: Vec<Val>) {
        self.push(Ev { tick: self.0.tick.get(), site, kind: EvKind::Read, x, vals });
    }
    pub fn take_events(&self) -> Vec<Ev> {
        std::mem::take(&mut *self.0.evs.borrow_mut())
    }
}

// ---------------------------------------------------------------------------------------------
// value snapshots used inside generated closures

#[inline]
pub fn v_one(r: &It) -> Val {
    Val::One(*r)
}
#[inline]
pub fn v_opt(r: &Option<It>) -> Val {
    Val::Opt(*r)
}
#[inline]
pub fn v_many(r: &[It]) -> Val {
    let mut v = r.to_vec();
    v.sort();
    Val::Many(v)
}

// ---------------------------------------------------------------------------------------------
// pure function vocabulary (shared by the generated closures and by the reference models)

/// item -> item maps
pub fn mapf(id: u8, x: It) -> It {
    match id % 8 {
        0 => ((x.0 + 1).rem_euclid(M), x.1),
        1 => (x.1, x.0),
        2 => (x.0, (x.0 + x.1).rem_euclid(M)),
        3 => ((x.0 * 2 + x.1).rem_euclid(M), x.1),
        4 => (x.0, (x.1 + 2).rem_euclid(M)),
        5 => ((x.0 + x.1).rem_euclid(M), (x.0 * x.1).rem_euclid(M)),
        6 => (x.0.rem_euclid(2), x.1),
        _ => (x.0, x.1),
    }
}
pub const N_MAPF: u8 = 8;

/// item predicates
pub fn predf(id: u8, x: &It) -> bool {
    match id % 6 {
        0 => x.0 % 2 == 0,
        1 => x.1 < 3,
        2 => x.0 != x.1,
        3 => x.0 + x.1 >= 3,
        4 => x.1 % 2 == 1,
        _ => x.0 > 0,
    }
}
pub const N_PREDF: u8 = 6;

/// item -> 0..=2 items
pub fn flatf(id: u8, x: It) -> Vec<It> {
    match id % 3 {
        0 => (0..x.1.rem_euclid(3)).map(|i| (x.0, i)).collect(),
        1 => vec![x, (x.1, x.0)],
        _ => {
            if x.0 % 2 == 0 {
                vec![x]
            } else {
                vec![]
            }
        }
    }
}
pub const N_FLATF: u8 = 3;

/// successor function of the bounded-reachability loops: node = `x.0` in 0..M, `x.1` is a tag kept as is
pub fn neigh(id: u8, x: It) -> Vec<It> {
    match id % 3 {
        0 => vec![((x.0 * 2).rem_euclid(M), x.1), ((x.0 + 3).rem_euclid(M), x.1)],
        1 => vec![((x.0 + 1).rem_euclid(M), x.1)],
        _ => {
            if x.0 % 2 == 0 {
                vec![((x.0 + 2).rem_euclid(M), x.1)]
            } else {
                vec![]
            }
        }
    }
}

/// commutative + associative accumulation (order-insensitive)
pub fn acc_comm(id: u8, a: &mut It, x: It) {
    match id % 3 {
        0 => {
            a.0 = (a.0 + x.0).rem_euclid(P);
            a.1 = (a.1 + x.1).rem_euclid(P);
        }
        1 => {
            a.0 = a.0.max(x.0);
            a.1 = (a.1 + 1).rem_euclid(P);
        }
        _ => {
            a.0 = (a.0 + x.0 * x.1).rem_euclid(P);
            a.1 = a.1.max(x.1);
        }
    }
}
pub const N_ACC_COMM: u8 = 3;

/// symmetric semigroup operation for `reduce` (the first item seeds the accumulator, so the operation itself
/// must be commutative + associative for the result to be order-insensitive)
pub fn red_comm(id: u8, a: &mut It, x: It) {
    match id % 3 {
        0 => {
            a.0 = (a.0 + x.0).rem_euclid(P);
            a.1 = (a.1 + x.1).rem_euclid(P);
        }
        1 => {
            a.0 = a.0.max(x.0);
            a.1 = a.1.min(x.1);
        }
        _ => {
            a.0 = a.0.min(x.0);
            a.1 = (a.1 + x.1).rem_euclid(P);
        }
    }
}

/// order-sensitive accumulation (only used on streams whose order is defined)
pub fn acc_ord(a: &mut It, x: It) {
    a.0 = (a.0 * 31 + x.0 + 1).rem_euclid(P);
    a.1 = (a.1 * 17 + x.1 + 1).rem_euclid(P);
}

/// key extractor for `sort_by_key` (a named fn, so that the higher-ranked signature is explicit)
pub fn key0(x: &It) -> &i64 {
    &x.0
}

/// commutative accumulation on the value half (keyed folds)
pub fn acc_val(id: u8, a: &mut i64, v: i64) {
    match id % 2 {
        0 => *a = (*a + v + 1).rem_euclid(P),
        _ => *a = (*a).max(v),
    }
}

/// state mutations used by `#mut` closures on a `singleton()` value
pub fn mut_one(id: u8, r: &mut It, x: It) {
    match id % 3 {
        0 => r.0 = (r.0 + x.0 + 1).rem_euclid(P),
        1 => r.0 = (r.0 * 2 + 1).rem_euclid(P),
        _ => {
            r.1 = (r.1 * 3 + x.1 + 1).rem_euclid(P);
        }
    }
}
/// … on an `optional()` value
pub fn mut_opt(id: u8, r: &mut Option<It>, x: It) {
    match id % 3 {
        0 => match r {
            Some(v) => v.0 = (v.0 + x.0 + 1).rem_euclid(P),
            None => *r = Some(x),
        },
        1 => match r {
            Some(v) => v.0 = (v.0 * 2 + 1).rem_euclid(P),
            None => *r = Some((1, 1)),
        },
        _ => {
            if x.0 % 2 == 0 {
                *r = None
            } else if let Some(v) = r {
                v.1 = (v.1 * 3 + x.1 + 1).rem_euclid(P)
            }
        }
    }
}
/// … on a `handoff()` buffer. Generic over the buffer type the generated code hands out (`&mut Vec<T>` of
/// whatever allocator) through the tiny trait below.
pub trait BufLike {
    fn b_push(&mut self, x: It);
    fn b_retain(&mut self, f: &mut dyn FnMut(&It) -> bool);
    fn b_clear(&mut self);
    fn b_slice(&self) -> &[It];
}
impl BufLike for Vec<It> {
    fn b_push(&mut self, x: It) {
        self.push(x)
    }
    fn b_retain(&mut self, f: &mut dyn FnMut(&It) -> bool) {
        self.retain(|y| f(y))
    }
    fn b_clear(&mut self) {
        self.clear()
    }
    fn b_slice(&self) -> &[It] {
        self
    }
}
impl<'b> BufLike for dfir_rs::bumpalo::collections::Vec<'b, It> {
    fn b_push(&mut self, x: It) {
        self.push(x)
    }
    fn b_retain(&mut self, f: &mut dyn FnMut(&It) -> bool) {
        self.retain(|y| f(y))
    }
    fn b_clear(&mut self) {
        self.clear()
    }
    fn b_slice(&self) -> &[It] {
        self
    }
}
pub fn mut_many<B: BufLike>(id: u8, r: &mut B, x: It) {
    match id % 3 {
        0 => r.b_push((x.0, (x.1 + 1).rem_euclid(M))),
        1 => r.b_retain(&mut |y| y.0 != x.0),
        _ => {
            if x.1 % 2 == 0 {
                r.b_push(x)
            } else {
                r.b_retain(&mut |y| y.1 != x.1)
            }
        }
    }
}
pub fn v_buf<B: BufLike>(r: &B) -> Val {
    v_many(r.b_slice())
}

// ---------------------------------------------------------------------------------------------
// driver

/// Feed tick t's items, run exactly one tick, repeat. The harness therefore chooses the tick partition.
pub fn drive<T: TickClosure>(
    df: &mut Dfir<T>,
    txs: &[dfir_rs::tokio::sync::mpsc::UnboundedSender<It>],
    h: &History,
    rec: &Rec,
) {
    let want = rec.0.want_loop_runs.get();
    let metrics = df.metrics();
    // loop index (textual pre-order) per subgraph
    let mut sg_loop: Vec<(dfir_lang::graph::GraphSubgraphId, usize)> = Vec::new();
    if want {
        if let Some(mg) = df.meta_graph() {
            let loop_ids: Vec<_> = mg.loop_ids().collect();
            let idx_of = |l: dfir_lang::graph::GraphLoopId| 1 + loop_ids.iter().position(|&x| x == l).unwrap();
            let mut parents = BTreeMap::new();
            for &l in &loop_ids {
                parents.insert(idx_of(l), mg.loop_parent(l).map(idx_of).unwrap_or(0));
            }
            for sg in mg.subgraph_ids() {
                let li = mg.subgraph_loop(sg).map(idx_of).unwrap_or(0);
                sg_loop.push((sg, li));
            }
            rec.0.loop_runs.borrow_mut().parents = parents;
        }
    }
    let mut prev: Vec<u64> = sg_loop.iter().map(|(sg, _)| metrics.subgraphs[*sg].total_run_count() as u64).collect();
    for (t, per_src) in h.ticks.iter().enumerate() {
        rec.0.tick.set(t as u32);
        for (s, items) in per_src.iter().enumerate() {
            if let Some(tx) = txs.get(s) {
                for &x in items {
                    tx.send(x).expect("receiver alive");
                }
            }
        }
        df.run_tick_sync();
        if want {
            let mut m: BTreeMap<usize, (u64, u64)> = BTreeMap::new();
            for (i, (sg, li)) in sg_loop.iter().enumerate() {
                let now = metrics.subgraphs[*sg].total_run_count() as u64;
                let d = now - prev[i];
                prev[i] = now;
                let e = m.entry(*li).or_insert((d, d));
                e.0 = e.0.min(d);
                e.1 = e.1.max(d);
            }
            rec.0.loop_runs.borrow_mut().per_tick.push(m);
        }
        rec.0.ticks_done.set(t as u32 + 1);
    }
}

/// One compiled program.
pub type ProgFn = fn(&History, &Rec);

/// What the generated crate registers: program id -> function.
#[derive(Default)]
pub struct Registry {
    pub progs: BTreeMap<String, ProgFn>,
}
impl Registry {
    pub fn add(&mut self, id: &str, f: ProgFn) {
        self.progs.insert(id.to_string(), f);
    }
}
