//! A tiny dataflow-program AST (one named statement per operator) and its emitter to DFIR surface syntax.
//! Every operator gets its own variable name, so the compiled graph's `node_varname` identifies it.

use std::collections::BTreeSet;

use serde::{Deserialize, Serialize};
use vcommon::Rng;

#[derive(Clone, Debug, Serialize, Deserialize, PartialEq, Eq)]
pub struct Node {
    /// variable name of the statement (unique)
    pub name: String,
    /// operator kind for coverage counters, e.g. `fold'static`
    pub kind: String,
    /// operator expression text, e.g. `map(|x: It| dxs_rt::mapf(3, x))`
    pub text: String,
    /// inputs: (index of producing node, port label on *this* node)
    pub ins: Vec<(usize, Option<String>)>,
    /// loop context: 0 = top level, otherwise index into `Prog::loop_parent`
    pub lp: usize,
    /// Rust type of the items leaving this node
    pub ty: String,
    /// true for operators of the base program (colour flips are counted on these)
    pub base: bool,
}

#[derive(Clone, Debug, Default, Serialize, Deserialize, PartialEq, Eq)]
pub struct Prog {
    pub nodes: Vec<Node>,
    /// `loop_parent[l]` = parent loop of loop `l` (0 = top level). Entry 0 is unused (=0).
    pub loop_parent: Vec<usize>,
    pub n_src: usize,
}

impl Prog {
    pub fn new(n_src: usize) -> Prog {
        Prog { nodes: Vec::new(), loop_parent: vec![0], n_src }
    }
    pub fn add_loop(&mut self, parent: usize) -> usize {
        self.loop_parent.push(parent);
        self.loop_parent.len() - 1
    }
    pub fn add(&mut self, name: &str, kind: &str, text: &str, ins: Vec<(usize, Option<&str>)>, lp: usize, ty: &str) -> usize {
        self.nodes.push(Node {
            name: name.to_string(),
            kind: kind.to_string(),
            text: text.to_string(),
            ins: ins.into_iter().map(|(i, p)| (i, p.map(|s| s.to_string()))).collect(),
            lp,
            ty: ty.to_string(),
            base: true,
        });
        self.nodes.len() - 1
    }
    /// consumers of node `i`: (consumer index, input slot)
    pub fn consumers(&self, i: usize) -> Vec<(usize, usize)> {
        let mut v = Vec::new();
        for (j, n) in self.nodes.iter().enumerate() {
            for (k, (src, _)) in n.ins.iter().enumerate() {
                if *src == i {
                    v.push((j, k));
                }
            }
        }
        v
    }
    pub fn depth(&self, lp: usize) -> usize {
        let mut d = 0;
        let mut l = lp;
        while l != 0 {
            d += 1;
            l = self.loop_parent[l];
        }
        d
    }

    /// Emit DFIR text. `order`: None = textual (construction) order; Some(seed) = statements shuffled within
    /// each block (names may be used before they are assigned — DFIR allows forward references), which in
    /// particular changes which side of a binary operator is declared first.
    pub fn emit(&self, order: Option<u64>) -> String {
        self.emit_with_loops(order).0
    }

    /// Also returns the loops in textual pre-order (= the order in which the front end numbers them).
    pub fn emit_with_loops(&self, order: Option<u64>) -> (String, Vec<usize>) {
        let mut rng = order.map(Rng::new);
        let mut out = String::new();
        let mut loops = Vec::new();
        self.emit_block(0, 2, &mut rng, &mut out, &mut loops);
        (out, loops)
    }

    fn emit_block(&self, lp: usize, indent: usize, rng: &mut Option<Rng>, out: &mut String, loops: &mut Vec<usize>) {
        enum Stmt {
            Line(String),
            Loop(usize),
        }
        let mut stmts: Vec<Stmt> = Vec::new();
        for n in self.nodes.iter().filter(|n| n.lp == lp) {
            let single_unported = n.ins.len() == 1 && n.ins[0].1.is_none();
            if n.ins.is_empty() {
                stmts.push(Stmt::Line(format!("{} = {};", n.name, n.text)));
            } else if single_unported {
                stmts.push(Stmt::Line(format!("{} = {} -> {};", n.name, self.nodes[n.ins[0].0].name, n.text)));
            } else {
                stmts.push(Stmt::Line(format!("{} = {};", n.name, n.text)));
                for (src, port) in &n.ins {
                    match port {
                        Some(p) => stmts.push(Stmt::Line(format!("{} -> [{}]{};", self.nodes[*src].name, p, n.name))),
                        None => stmts.push(Stmt::Line(format!("{} -> {};", self.nodes[*src].name, n.name))),
                    }
                }
            }
        }
        for (l, &p) in self.loop_parent.iter().enumerate() {
            if l != 0 && p == lp {
                stmts.push(Stmt::Loop(l));
            }
        }
        if let Some(r) = rng.as_mut() {
            r.shuffle(&mut stmts);
        }
        let pad = " ".repeat(indent * 2);
        for s in stmts {
            match s {
                Stmt::Line(l) => {
                    out.push_str(&pad);
                    out.push_str(&l);
                    out.push('\n');
                }
                Stmt::Loop(l) => {
                    out.push_str(&pad);
                    out.push_str("loop {\n");
                    loops.push(l);
                    self.emit_block(l, indent + 1, rng, out, loops);
                    out.push_str(&pad);
                    out.push_str("};\n");
                }
            }
        }
    }

    /// Identifiers `rec_<name>` used by the closures (each needs its own clone of the recorder).
    pub fn rec_idents(&self) -> Vec<String> {
        let mut set = BTreeSet::new();
        for n in &self.nodes {
            let b = n.text.as_bytes();
            let mut i = 0;
            while let Some(p) = n.text[i..].find("rec_") {
                let s = i + p;
                let prev_ok = s == 0 || !(b[s - 1].is_ascii_alphanumeric() || b[s - 1] == b'_');
                let mut e = s + 4;
                while e < b.len() && (b[e].is_ascii_alphanumeric() || b[e] == b'_') {
                    e += 1;
                }
                if prev_ok {
                    set.insert(n.text[s..e].to_string());
                }
                i = e;
            }
        }
        set.into_iter().collect()
    }

    /// The Rust function wrapping this program.
    pub fn emit_fn(&self, fn_name: &str, dfir_text: &str) -> String {
        let mut s = String::new();
        s.push_str(&format!("#[allow(unused_variables, unused_mut, clippy::all)]\npub fn {fn_name}(h: &dxs_rt::History, rec: &dxs_rt::Rec) {{\n"));
        s.push_str("    use dxs_rt::It;\n");
        s.push_str("    let mut txs = Vec::new();\n");
        for i in 0..self.n_src {
            s.push_str(&format!("    let (tx{i}, rx{i}) = dfir_rs::util::unbounded_channel::<It>();\n    txs.push(tx{i});\n"));
        }
        for id in self.rec_idents() {
            s.push_str(&format!("    let {id} = rec.clone();\n"));
        }
        s.push_str("    let mut df = dfir_rs::dfir_syntax! {\n");
        s.push_str(dfir_text);
        s.push_str("    };\n");
        s.push_str("    dxs_rt::drive(&mut df, &txs, h, rec);\n}\n");
        s
    }
}
