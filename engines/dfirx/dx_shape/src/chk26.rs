//! C26 oracle: the per-run item multisets of every tap and the number of body runs of every loop must equal
//! the reference of the documented loop semantics; termination is judged on run counts (cap = reference + 2).

use std::collections::BTreeMap;

use vcommon::{Args, Reporter, Rng, hash_of, json};

use crate::emit::Manifest;
use crate::g26::{Op26, P26, reference};
use crate::rt::{CAP_PANIC, EvKind, History, It, Rec, Registry, SIZE_PANIC};

fn history_for(seed: u64, idx: usize, i: usize, n_src: usize) -> History {
    let mut r = Rng::new(seed).fork(0xC26_0000 + idx as u64).fork(i as u64);
    History::random(&mut r, n_src, 5, 4, 2)
}

fn case_json(m: &Manifest, p: &P26, h: &History, extra: vcommon::Value) -> vcommon::Value {
    json!({"engine": "dx_shape", "prop": "C26", "gen_seed": m.seed, "gen_tier": m.tier, "program": p.prog_id, "history": h, "dfir": p.text, "detail": extra})
}

/// does loop `lp` (or the tap's own loop) contain a defer/lazy/batch_lazy etc.: a short class for signatures
fn loop_class(p: &P26, lp: usize) -> String {
    if lp == 0 {
        return "top-level".into();
    }
    let d = p.depth(lp);
    let mut feats = Vec::new();
    let has = |f: &dyn Fn(&Op26) -> bool| p.nodes.iter().any(|n| n.lp == lp && f(&n.op));
    if has(&|o| *o == Op26::Defer) {
        feats.push("defer_tick");
    }
    if has(&|o| *o == Op26::DeferLazy) {
        feats.push("defer_tick_lazy");
    }
    if has(&|o| *o == Op26::BatchLazy) {
        if has(&|o| *o == Op26::Batch) || has(&|o| *o == Op26::Defer) {
            feats.push("batch_lazy");
        } else {
            // nothing non-lazy can ever trigger this loop
            return format!("{}+only-lazy-triggers", if d == 1 { "root-loop" } else { "nested-loop" });
        }
    }
    format!("{}{}", if d == 1 { "root-loop" } else { "nested-loop" }, if feats.is_empty() { String::new() } else { format!("+{}", feats.join("+")) })
}

pub fn judge(rep: &mut Reporter, m: &Manifest, reg: &Registry, p: &P26, h: &History) -> u32 {
    let Some(&f) = reg.progs.get(&p.prog_id) else {
        rep.count("missing_program_fn");
        return 0;
    };
    let want = reference(p, h);
    let rec = Rec::new();
    rec.0.want_loop_runs.set(true);
    {
        // step caps: reference run count + 2 for every tap and tick
        let mut caps = rec.0.caps.borrow_mut();
        for (site, _) in &p.taps {
            for t in 0..h.n_ticks() as u32 {
                let n = want.taps.get(&(*site, t)).map(|v| v.len()).unwrap_or(0) as u32;
                caps.insert((*site, t), n + 2);
            }
        }
    }
    let res = vcommon::catch(|| f(h, &rec));
    let evs = rec.take_events();
    let ticks_done = rec.0.ticks_done.get() as usize;
    let mut nviol = 0u32;
    // observed runs per (site, tick)
    let mut got: BTreeMap<(u16, u32), Vec<Vec<It>>> = BTreeMap::new();
    let mut open: BTreeMap<u16, Vec<It>> = BTreeMap::new();
    for e in &evs {
        match e.kind {
            EvKind::Item => open.entry(e.site).or_default().push(e.x),
            EvKind::End => {
                let mut v = open.remove(&e.site).unwrap_or_default();
                v.sort();
                got.entry((e.site, e.tick)).or_default().push(v);
            }
            EvKind::Read => {}
        }
    }
    let tap_loop: BTreeMap<u16, usize> = p.taps.iter().copied().collect();
    let mut capped: Option<String> = None;
    if let Err(msg) = &res {
        if msg.contains(SIZE_PANIC) {
            rep.count("history_skipped_trace_too_big");
            return 0;
        }
        if msg.contains(CAP_PANIC) {
            capped = Some(msg.clone());
        } else {
            rep.eval();
            rep.violation(
                "C26|run|panic",
                &format!("{} panicked in tick {}: {}", p.prog_id, ticks_done, msg),
                case_json(m, p, h, json!({"panic": msg, "tick": ticks_done})),
            );
            nviol += 1;
        }
    }
    // taps: the first deviation in execution order (a deviation can only be caused by what ran before it)
    let mut iterated = false;
    for ((_site, _t), w) in want.taps.iter() {
        if tap_loop.get(_site).copied().unwrap_or(0) != 0 && w.len() >= 2 {
            iterated = true;
        }
    }
    {
        let empty: Vec<Vec<It>> = Vec::new();
        let mut idx: BTreeMap<(u16, u32), usize> = BTreeMap::new();
        let mut open2: BTreeMap<u16, Vec<It>> = BTreeMap::new();
        let mut first: Option<(u16, u32, &'static str)> = None;
        let mut cur_tick = 0u32;
        let missing = |t: u32, idx: &BTreeMap<(u16, u32), usize>| -> Option<u16> {
            p.taps.iter().map(|(s, _)| *s).find(|s| idx.get(&(*s, t)).copied().unwrap_or(0) < want.taps.get(&(*s, t)).map(|v| v.len()).unwrap_or(0))
        };
        for e in &evs {
            if first.is_some() {
                break;
            }
            if e.tick != cur_tick {
                // the previous tick is complete: did some tap stop early?
                for t in cur_tick..e.tick {
                    if first.is_none() {
                        if let Some(s) = missing(t, &idx) {
                            first = Some((s, t, "stopped-before-fixpoint"));
                        }
                    }
                }
                cur_tick = e.tick;
                if first.is_some() {
                    break;
                }
            }
            match e.kind {
                EvKind::Item => open2.entry(e.site).or_default().push(e.x),
                EvKind::End => {
                    let mut v = open2.remove(&e.site).unwrap_or_default();
                    v.sort();
                    let k = idx.entry((e.site, e.tick)).or_insert(0);
                    let w = want.taps.get(&(e.site, e.tick)).unwrap_or(&empty);
                    rep.eval();
                    let lp = tap_loop.get(&e.site).copied().unwrap_or(0);
                    if *k >= w.len() {
                        let kind = if p.depth(lp) == 1 && *k >= 1 {
                            "root-loop-ran-more-than-once-in-a-tick"
                        } else if w.is_empty() && lp != 0 {
                            "ran-without-trigger"
                        } else {
                            "extra-iterations"
                        };
                        first = Some((e.site, e.tick, kind));
                    } else if w[*k] != v {
                        first = Some((e.site, e.tick, "window-content-differs"));
                    }
                    *k += 1;
                }
                EvKind::Read => {}
            }
        }
        if first.is_none() {
            for t in cur_tick..ticks_done.min(h.n_ticks()) as u32 {
                if let Some(s) = missing(t, &idx) {
                    first = Some((s, t, "stopped-before-fixpoint"));
                    break;
                }
            }
        }
        if let Some((site, t, kind)) = first {
            let lp = tap_loop.get(&site).copied().unwrap_or(0);
            let w = want.taps.get(&(site, t)).unwrap_or(&empty);
            let g = got.get(&(site, t)).unwrap_or(&empty);
            // the run was stopped by the step cap (reference + 2 body runs) at this very tap: it does not stop
            let kind = if capped.is_some() && kind == "extra-iterations" && g.len() >= w.len() + 3 { "does-not-reach-fixpoint" } else { kind };
            rep.violation(
                &format!("C26|tap|{kind}|{}", loop_class(p, lp)),
                &format!("{} tick {t}: tap {site} in loop {lp} (depth {}) saw runs {:?}, the reference of the documented semantics gives {:?}", p.prog_id, p.depth(lp), g, w),
                case_json(m, p, h, json!({"tick": t, "tap": site, "loop": lp, "observed_runs": g, "reference_runs": w})),
            );
            nviol += 1;
        } else if let Some(msg) = &capped {
            rep.eval();
            rep.violation("C26|loop|does-not-reach-fixpoint|unattributed", &format!("{}: step cap reached without a deviating tap: {msg}", p.prog_id), case_json(m, p, h, json!({"panic": msg})));
            nviol += 1;
        }
    }
    if capped.is_some() {
        return nviol;
    }
    // body-run counts read from the runtime's own metrics
    let lr = rec.0.loop_runs.borrow();
    if nviol == 0 && lr.per_tick.len() >= ticks_done {
        for t in 0..ticks_done.min(h.n_ticks()) {
            for (pos, &lp) in p.loop_text_order.iter().enumerate() {
                let meta_idx = pos + 1;
                let Some(&(mn, mx)) = lr.per_tick[t].get(&meta_idx) else { continue };
                let w = want.loop_runs[t].get(&lp).copied().unwrap_or(0);
                rep.eval();
                if mn != w || mx != w {
                    let root = p.depth(lp) == 1;
                    let kind = if root && mx > 1 { "root-loop-ran-more-than-once-in-a-tick" } else if mx < w { "stopped-before-fixpoint" } else { "extra-iterations" };
                    rep.violation(
                        &format!("C26|body-runs|{kind}|{}", loop_class(p, lp)),
                        &format!("{} tick {t}: subgraphs of loop {lp} (depth {}) ran between {mn} and {mx} times, the reference gives {w}", p.prog_id, p.depth(lp)),
                        case_json(m, p, h, json!({"tick": t, "loop": lp, "observed_min": mn, "observed_max": mx, "reference_runs": w})),
                    );
                    nviol += 1;
                    break;
                }
            }
            if nviol > 0 {
                break;
            }
        }
    }
    if iterated {
        rep.nontrivial(hash_of(&(&p.prog_id, h)));
        rep.sample(|| {
            let runs: BTreeMap<String, Vec<usize>> = p.taps.iter().filter(|(_, lp)| *lp != 0).map(|(s, lp)| (format!("tap{s}@loop{lp}"), (0..h.n_ticks() as u32).map(|t| want.taps.get(&(*s, t)).map(|v| v.len()).unwrap_or(0)).collect())).collect();
            json!({"program": p.prog_id, "depth": p.max_depth, "families": p.families, "ticks": h.n_ticks(), "runs_per_tick": runs})
        });
    }
    // coverage
    for lrw in want.loop_runs.iter() {
        for lp in 1..p.loop_parent.len() {
            let n = lrw.get(&lp).copied().unwrap_or(0);
            let d = p.depth(lp);
            if n >= 2 && d >= 2 {
                rep.count(&format!("nested_loop_iterated.depth{d}"));
            }
            if n == 0 {
                rep.count("loop_did_not_fire_in_tick");
            }
        }
    }
    nviol
}

/// The front end accepted the program but rustc rejects the generated code: if the error is about a generated
/// loop / handoff buffer the loop scaffolding itself is broken (a compiler-side defect, reported); anything else
/// is a defect of the generator's own user code.
fn compile_failure(rep: &mut Reporter, m: &Manifest, p: &P26, msg: &str) {
    let generated = ["`hoff_", "`singleton_", "`sg_"].iter().any(|n| msg.contains(n));
    if generated {
        rep.eval();
        rep.violation(
            "C26|compile|generated-loop-code-does-not-compile",
            &format!("{}: accepted by the front end, but the generated loop code is rejected by rustc: {}", p.prog_id, &msg[..msg.len().min(300)]),
            json!({"engine": "dx_shape", "prop": "C26", "gen_seed": m.seed, "gen_tier": m.tier, "program": p.prog_id, "dfir": p.text, "compile_only": true, "error": msg}),
        );
    } else {
        rep.count("program_failed_rustc");
    }
}

pub fn run(args: &Args, m: &Manifest, reg: &Registry) {
    let mut rep = Reporter::new("C26", args.seed);
    if let Some(case) = args.replay_case() {
        let id = case["program"].as_str().unwrap_or("");
        if case.get("compile_only").and_then(|x| x.as_bool()).unwrap_or(false) {
            if let (Some(p), Some(msg)) = (m.c26.iter().find(|p| p.prog_id == id), m.rustc_failed.get(id)) {
                compile_failure(&mut rep, m, p, msg);
            }
            rep.finish("replay", false);
            return;
        }
        if let (Some(p), Ok(h)) = (m.c26.iter().find(|p| p.prog_id == id), vcommon::serde_json::from_value::<History>(case["history"].clone())) {
            judge(&mut rep, m, reg, p, &h);
        } else {
            eprintln!("replay: program {id} not in manifest or bad history");
        }
        rep.finish("replay", false);
        return;
    }
    let n_hist = args.budget(200, 2000, 3);
    for (idx, p) in m.c26.iter().enumerate() {
        if let Some(msg) = m.rustc_failed.get(&p.prog_id) {
            compile_failure(&mut rep, m, p, msg);
            continue;
        }
        rep.count("programs");
        rep.count(&format!("max_depth.{}", p.max_depth));
        for f in &p.families {
            rep.count(&format!("family.{f}"));
        }
        for n in &p.nodes {
            match n.op {
                Op26::Batch => rep.count("op.batch"),
                Op26::BatchLazy => rep.count("op.batch_lazy"),
                Op26::AllIter => rep.count("op.all_iterations"),
                Op26::Defer => rep.count(if p.depth(n.lp) == 1 { "op.defer_tick@root-loop" } else { "op.defer_tick@nested-loop" }),
                Op26::DeferLazy => rep.count(if p.depth(n.lp) == 1 { "op.defer_tick_lazy@root-loop" } else { "op.defer_tick_lazy@nested-loop" }),
                _ => {}
            }
        }
        let mut viol = 0;
        for i in 0..n_hist {
            let h = history_for(m.seed, idx, i, p.n_src);
            viol += judge(&mut rep, m, reg, p, &h);
            if viol >= 3 {
                break;
            }
        }
    }
    if !matches!(args.tier, vcommon::Tier::Miri) {
        for k in ["op.batch", "op.batch_lazy", "op.all_iterations", "op.defer_tick@root-loop", "op.defer_tick@nested-loop", "max_depth.2", "max_depth.3", "family.countdown", "family.reach", "family.oneshot", "nested_loop_iterated.depth2", "loop_did_not_fire_in_tick"] {
            let c = rep.counter(k);
            rep.require(c >= 1, &format!("coverage `{k}` not reached"));
        }
        let c = rep.counter("program_failed_rustc") + rep.counter("missing_program_fn");
        rep.require(c == 0, "a generated C26 program did not compile (generator defect)");
        rep.require(m.gen_rejects.iter().filter(|r| r.starts_with("C26")).count() <= m.c26.len() / 2 + 2, "too many C26 programs rejected by the front end (generator defect)");
    }
    rep.extra("generator_rejects", json!(m.gen_rejects.iter().filter(|r| r.starts_with("C26")).count()));
    rep.finish(
        "Seeded programs with 1-2 root-level loops and nested loops to depth 3: batch()/batch_lazy() entries, all_iterations() exits, countdown / bounded \
         reachability (flat_map + unique) / one-shot feedback through defer_tick() or defer_tick_lazy(), child loops inside the feedback path, sibling loops; every \
         loop body carries a tap (inspect -> fold -> for_each) that logs the items of each body run and an end-of-run marker. Each program runs 200/2000 random \
         histories (<= 5 ticks x <= 4 items per source + 2 flush ticks, many empty ticks). Oracle: a ~150-line reference of the documented semantics (re-run iff a \
         non-lazy entry or loop-delayed buffer is non-empty; defer_tick = one iteration in nested, one tick in root-level loops; batch releases once; \
         all_iterations collects all runs; root-level loop <= 1 run per tick) gives per-run multisets per tap and body-run counts per loop, compared with the \
         taps and with the runtime's own per-subgraph run counters; step cap = reference + 2 runs. Non-trivial = run in which some loop body iterates >= 2 times in a tick.",
        false,
    );
}
