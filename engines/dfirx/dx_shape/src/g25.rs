//! C25: programs with 1–3 shared states (`singleton()` fed by a fold, `optional()` fed by a reduce, a plain
//! `handoff()`), 2–5 closures holding `#x`, `#mut x`, `#{N} x`, `#{N} mut x` references, producers at varying
//! subgraph distance; plus the plain-Rust model of what every read must see.

use std::collections::BTreeMap;

use serde::{Deserialize, Serialize};
use vcommon::Rng;

use crate::analyze::analyze;
use crate::ast::Prog;
use crate::rt::{self, History, It, Val};

#[derive(Clone, Debug, Serialize, Deserialize)]
pub enum Step {
    Map(u8),
    Filter(u8),
    /// shape-only hop: identity | handoff | tee_null | map_id
    Hop(String),
}

#[derive(Clone, Debug, Serialize, Deserialize)]
pub struct Chain {
    pub src: usize,
    /// a `defer_tick()` right after the source: the chain carries the previous tick's items
    pub delay: bool,
    pub steps: Vec<Step>,
}

#[derive(Clone, Debug, Serialize, Deserialize, PartialEq, Eq)]
pub enum StateKind {
    /// `fold::<'tick|'static>(…) -> singleton()`; (static?, accumulator id)
    Singleton(bool, u8),
    /// `reduce::<'tick|'static>(…) -> optional()`
    Optional(bool, u8),
    /// plain `handoff()`
    Handoff,
}

#[derive(Clone, Debug, Serialize, Deserialize)]
pub struct State {
    pub name: String,
    pub kind: StateKind,
    pub producers: Vec<Chain>,
    /// the state also has a pipe consumer (`st -> for_each`)
    pub consumer: bool,
}

#[derive(Clone, Debug, Serialize, Deserialize)]
pub struct RefUse {
    pub state: usize,
    pub group: Option<u32>,
    /// `Some(f)`: `#mut` reference applying mutation `f` after logging
    pub mutf: Option<u8>,
}

#[derive(Clone, Debug, Serialize, Deserialize)]
pub struct Reader {
    pub cid: u16,
    pub chain: Chain,
    /// operator holding the closure: map | filter | inspect | for_each | flat_map | filter_map
    pub op: String,
    pub refs: Vec<RefUse>,
}

#[derive(Clone, Debug, Serialize, Deserialize)]
pub struct P25 {
    pub prog_id: String,
    pub n_src: usize,
    pub states: Vec<State>,
    pub readers: Vec<Reader>,
    pub text: String,
    pub n_subgraphs: usize,
}

// ---------------------------------------------------------------------------------------------
// generation

fn gen_chain(rng: &mut Rng, n_src: usize, max_steps: usize, allow_delay: bool) -> Chain {
    let mut steps = Vec::new();
    let n = rng.below(max_steps + 1);
    for _ in 0..n {
        match rng.below(6) {
            0 | 1 => steps.push(Step::Map(rng.below(rt::N_MAPF as usize) as u8)),
            2 => steps.push(Step::Filter(rng.below(rt::N_PREDF as usize) as u8)),
            _ => {
                let h = *rng.choose(&["identity", "handoff", "tee_null", "map_id"]);
                // never two handoffs in a row (documented compile error "adjacent handoffs")
                if h == "handoff" && matches!(steps.last(), Some(Step::Hop(x)) if x == "handoff") {
                    steps.push(Step::Hop("identity".into()));
                } else {
                    steps.push(Step::Hop(h.into()));
                }
            }
        }
    }
    Chain { src: rng.below(n_src), delay: allow_delay && rng.chance(1, 6), steps }
}

struct Builder {
    prog: Prog,
    /// per source: node index to read from (tee if shared)
    src_out: Vec<usize>,
    counter: usize,
}

impl Builder {
    fn fresh(&mut self, p: &str) -> String {
        self.counter += 1;
        format!("{p}{}", self.counter)
    }
    /// materialise a chain; returns the index of its last node. `no_trailing_handoff`: the consumer is itself a
    /// handoff-like node.
    fn chain(&mut self, c: &Chain, no_trailing_handoff: bool) -> usize {
        let mut cur = self.src_out[c.src];
        if c.delay {
            let n = self.fresh("d");
            cur = self.prog.add(&n, "defer_tick", "defer_tick()", vec![(cur, None)], 0, "It");
        }
        let mut last_is_hoff = false;
        for (i, s) in c.steps.iter().enumerate() {
            let n = self.fresh("c");
            match s {
                Step::Map(f) => {
                    cur = self.prog.add(&n, "map", &format!("map(|x: It| dxs_rt::mapf({f}, x))"), vec![(cur, None)], 0, "It");
                    last_is_hoff = false;
                }
                Step::Filter(f) => {
                    cur = self.prog.add(&n, "filter", &format!("filter(|x: &It| dxs_rt::predf({f}, x))"), vec![(cur, None)], 0, "It");
                    last_is_hoff = false;
                }
                Step::Hop(h) => {
                    let is_last = i + 1 == c.steps.len();
                    let h = if h == "handoff" && (last_is_hoff || (is_last && no_trailing_handoff) || (i == 0 && c.delay)) { "identity" } else { h.as_str() };
                    match h {
                        "identity" => {
                            cur = self.prog.add(&n, "identity", "identity::<It>()", vec![(cur, None)], 0, "It");
                            last_is_hoff = false;
                        }
                        "map_id" => {
                            cur = self.prog.add(&n, "map", "map(|x: It| x)", vec![(cur, None)], 0, "It");
                            last_is_hoff = false;
                        }
                        "handoff" => {
                            cur = self.prog.add(&n, "handoff", "handoff()", vec![(cur, None)], 0, "It");
                            last_is_hoff = true;
                        }
                        _ => {
                            let t = self.prog.add(&n, "tee", "tee()", vec![(cur, None)], 0, "It");
                            self.prog.add(&format!("{n}z"), "null", "null::<It>()", vec![(t, None)], 0, "()");
                            cur = t;
                            last_is_hoff = false;
                        }
                    }
                }
            }
        }
        cur
    }
}

fn ref_expr(st: &State, r: &RefUse, idx: usize) -> (String, String, String) {
    // returns (binding statements, value expression name, mutation statement)
    let g = match r.group {
        Some(n) => format!("{{{n}}} "),
        None => String::new(),
    };
    let name = &st.name;
    let snap = match st.kind {
        StateKind::Singleton(..) => "v_one",
        StateKind::Optional(..) => "v_opt",
        StateKind::Handoff => "v_buf",
    };
    match r.mutf {
        None => (format!("let w{idx} = dxs_rt::{snap}(#{g}{name});"), format!("w{idx}"), String::new()),
        Some(f) => {
            let m = match st.kind {
                StateKind::Singleton(..) => "mut_one",
                StateKind::Optional(..) => "mut_opt",
                StateKind::Handoff => "mut_many",
            };
            (
                format!("let m{idx} = #{g}mut {name}; let w{idx} = dxs_rt::{snap}(&*m{idx});"),
                format!("w{idx}"),
                format!("dxs_rt::{m}({f}, m{idx}, x);"),
            )
        }
    }
}

fn reader_text(p: &[State], r: &Reader) -> String {
    let mut binds = String::new();
    let mut vals = Vec::new();
    let mut muts = String::new();
    for (i, u) in r.refs.iter().enumerate() {
        let (b, v, m) = ref_expr(&p[u.state], u, i);
        binds.push_str(&b);
        binds.push(' ');
        vals.push(v);
        muts.push_str(&m);
    }
    let cid = r.cid;
    let body = format!("{binds}rec_r{cid}.read({cid}, x, vec![{}]); {muts}", vals.join(", "));
    match r.op.as_str() {
        "map" => format!("map(|x: It| {{ {body} x }})"),
        "filter" => format!("filter(|xr: &It| {{ let x = *xr; {body} true }})"),
        "inspect" => format!("inspect(|xr: &It| {{ let x = *xr; {body} }})"),
        "flat_map" => format!("flat_map(|x: It| {{ {body} ::std::iter::once(x) }})"),
        "filter_map" => format!("filter_map(|x: It| {{ {body} Some(x) }})"),
        _ => format!("for_each(|x: It| {{ {body} }})"),
    }
}

/// Build the program text for a model.
pub fn build(p: &mut P25) -> Prog {
    // source usage
    let mut uses = vec![0usize; p.n_src];
    for s in &p.states {
        for c in &s.producers {
            uses[c.src] += 1;
        }
    }
    for r in &p.readers {
        uses[r.chain.src] += 1;
    }
    let mut b = Builder { prog: Prog::new(p.n_src), src_out: Vec::new(), counter: 0 };
    for i in 0..p.n_src {
        let s = b.prog.add(&format!("s{i}"), "source_stream", &format!("source_stream(rx{i})"), vec![], 0, "It");
        if uses[i] > 1 {
            let t = b.prog.add(&format!("s{i}t"), "tee", "tee()", vec![(s, None)], 0, "It");
            b.src_out.push(t);
        } else if uses[i] == 0 {
            b.prog.add(&format!("s{i}z"), "null", "null::<It>()", vec![(s, None)], 0, "()");
            b.src_out.push(s);
        } else {
            b.src_out.push(s);
        }
    }
    let states = p.states.clone();
    for (j, st) in states.iter().enumerate() {
        let handoff_like_next = st.kind == StateKind::Handoff && st.producers.len() == 1;
        let ends: Vec<usize> = st.producers.iter().map(|c| b.chain(c, handoff_like_next)).collect();
        let mut cur = if ends.len() > 1 {
            b.prog.add(&format!("u{j}"), "union", "union()", ends.iter().map(|&e| (e, None)).collect(), 0, "It")
        } else {
            ends[0]
        };
        match st.kind {
            StateKind::Singleton(stat, f) => {
                let p = if stat { "'static" } else { "'tick" };
                cur = b.prog.add(
                    &format!("a{j}"),
                    &format!("fold{p}"),
                    &format!("fold::<{p}>(|| (0i64, 0i64), |a: &mut It, x: It| dxs_rt::acc_comm({f}, a, x))"),
                    vec![(cur, None)],
                    0,
                    "It",
                );
                b.prog.add(&st.name, "singleton", "singleton()", vec![(cur, None)], 0, "It");
            }
            StateKind::Optional(stat, f) => {
                let p = if stat { "'static" } else { "'tick" };
                cur = b.prog.add(
                    &format!("a{j}"),
                    &format!("reduce{p}"),
                    &format!("reduce::<{p}>(|a: &mut It, x: It| dxs_rt::red_comm({f}, a, x))"),
                    vec![(cur, None)],
                    0,
                    "It",
                );
                b.prog.add(&st.name, "optional", "optional()", vec![(cur, None)], 0, "It");
            }
            StateKind::Handoff => {
                b.prog.add(&st.name, "handoff", "handoff()", vec![(cur, None)], 0, "It");
            }
        }
        if st.consumer {
            let me = b.prog.nodes.len() - 1;
            let site = 900 + j;
            b.prog.add(&format!("k{j}"), "for_each", &format!("for_each(|x: It| rec_k{j}.item({site}, x))"), vec![(me, None)], 0, "()");
        }
    }
    let readers = p.readers.clone();
    for r in &readers {
        let end = b.chain(&r.chain, false);
        let text = reader_text(&states, r);
        let me = b.prog.add(&format!("r{}", r.cid), &r.op, &text, vec![(end, None)], 0, "It");
        if r.op != "for_each" {
            b.prog.add(&format!("r{}z", r.cid), "for_each", "for_each(|_x: It| ())", vec![(me, None)], 0, "()");
        }
    }
    b.prog
}

pub fn gen_prog(idx: usize, rng: &mut Rng, rejects: &mut Vec<String>, fns: &mut BTreeMap<String, String>) -> P25 {
    loop {
        let n_src = 2 + rng.below(3);
        let mut n_states = 1 + rng.below(3);
        if idx % 4 == 0 {
            n_states = n_states.max(2);
        }
        let n_readers = 2 + rng.below(4);
        let mut states = Vec::new();
        for j in 0..n_states {
            let kind = match rng.below(5) {
                0 | 1 => StateKind::Singleton(rng.chance(1, 2), rng.below(3) as u8),
                2 | 3 => StateKind::Optional(rng.chance(1, 2), rng.below(3) as u8),
                _ => StateKind::Handoff,
            };
            let np = 1 + rng.below(3);
            let producers = (0..np).map(|_| gen_chain(rng, n_src, 4, true)).collect();
            states.push(State { name: format!("st{j}"), kind, producers, consumer: rng.chance(1, 2) });
        }
        // which readers reference which state: every state gets >= 2 readers when there are enough readers
        let mut refs: Vec<Vec<usize>> = vec![Vec::new(); n_readers]; // reader -> states
        // coverage: every fourth program has a state with a single `#mut x`, every fourth one with only `#x` readers
        let force = idx % 4;
        for j in 0..n_states {
            let want = if force == 0 && j == 0 { 1 } else { 2 + rng.below(n_readers - 1) };
            let mut order: Vec<usize> = (0..n_readers).collect();
            rng.shuffle(&mut order);
            let mut n = 0;
            for r in order {
                if n >= want {
                    break;
                }
                if refs[r].len() < 2 {
                    refs[r].push(j);
                    n += 1;
                }
            }
        }
        for r in 0..n_readers {
            if refs[r].is_empty() {
                let j = if force == 0 { 1 + rng.below(n_states - 1) } else { rng.below(n_states) };
                refs[r].push(j);
            }
        }
        // access groups per state, monotone in the reader index (=> no cyclic ordering constraints)
        let mut uses: Vec<Vec<RefUse>> = vec![Vec::new(); n_readers];
        for j in 0..n_states {
            let rs: Vec<usize> = (0..n_readers).filter(|r| refs[*r].contains(&j)).collect();
            let mut g: u32 = rng.below(3) as u32;
            let mut assigned: Vec<(usize, u32, bool)> = Vec::new(); // reader, group, mutable
            let mut prev_mut = false;
            for (k, &r) in rs.iter().enumerate() {
                // a reader holding a mutable reference elsewhere stays shared here (at most one `#mut` per closure)
                let already_mut = uses[r].iter().any(|u: &RefUse| u.mutf.is_some());
                let forced = j == 0 && (force == 1 || (force == 0 && rs.len() == 1));
                let mutable = if forced { force == 0 } else { !already_mut && rng.chance(1, 3) };
                if k > 0 && !forced && (mutable || prev_mut || rng.chance(2, 5)) {
                    g += 1 + rng.below(3) as u32;
                }
                assigned.push((r, g, mutable));
                prev_mut = mutable;
            }
            let n_groups = assigned.iter().map(|a| a.1).collect::<std::collections::BTreeSet<_>>().len();
            let implicit = n_groups == 1 && (rng.chance(3, 4) || (j == 0 && force <= 1));
            let _ = idx;
            for (r, g, m) in assigned {
                uses[r].push(RefUse { state: j, group: if implicit { None } else { Some(g) }, mutf: if m { Some(rng.below(3) as u8) } else { None } });
            }
        }
        let mut readers = Vec::new();
        for r in 0..n_readers {
            let op = *rng.choose(&["map", "map", "filter", "inspect", "for_each", "flat_map", "filter_map"]);
            readers.push(Reader { cid: r as u16, chain: gen_chain(rng, n_src, 3, true), op: op.to_string(), refs: uses[r].clone() });
        }
        let mut p = P25 { prog_id: format!("c25_p{idx}"), n_src, states, readers, text: String::new(), n_subgraphs: 0 };
        let prog = build(&mut p);
        // declaration order is shuffled: it must not matter (only the group numbers do)
        let text = prog.emit(Some(rng.next_u64()));
        let a = analyze(&text);
        if !a.ok {
            rejects.push(format!("C25 program rejected by the front end: {} :: {}", a.err, text.replace('\n', " ")));
            if rejects.len() > 200 {
                panic!("too many rejected programs: {:?}", &rejects[..3]);
            }
            continue;
        }
        p.text = text;
        p.n_subgraphs = a.n_subgraphs;
        fns.insert(p.prog_id.clone(), prog.emit_fn(&p.prog_id, &p.text));
        return p;
    }
}

// ---------------------------------------------------------------------------------------------
// the model

pub fn chain_out(c: &Chain, h: &History, t: usize) -> Vec<It> {
    let src: Vec<It> = if c.delay {
        if t == 0 { Vec::new() } else { h.ticks[t - 1][c.src].clone() }
    } else {
        h.ticks[t][c.src].clone()
    };
    let mut v = src;
    for s in &c.steps {
        match s {
            Step::Map(f) => v = v.into_iter().map(|x| rt::mapf(*f, x)).collect(),
            Step::Filter(f) => v.retain(|x| rt::predf(*f, x)),
            Step::Hop(_) => {}
        }
    }
    v
}

/// Settled value of every state at every tick (after ALL same-tick producers ran, before any borrower).
pub fn settled(p: &P25, h: &History) -> Vec<Vec<Val>> {
    let mut acc: Vec<Option<It>> = p.states.iter().map(|s| match s.kind {
        StateKind::Singleton(..) => Some((0, 0)),
        _ => None,
    }).collect();
    let mut out = Vec::new();
    for t in 0..h.n_ticks() {
        let mut row = Vec::new();
        for (j, s) in p.states.iter().enumerate() {
            let mut items: Vec<It> = Vec::new();
            for c in &s.producers {
                items.extend(chain_out(c, h, t));
            }
            match s.kind {
                StateKind::Singleton(stat, f) => {
                    let mut a = if stat { acc[j].unwrap() } else { (0, 0) };
                    for x in items {
                        rt::acc_comm(f, &mut a, x);
                    }
                    if stat {
                        acc[j] = Some(a);
                    }
                    row.push(Val::One(a));
                }
                StateKind::Optional(stat, f) => {
                    let mut a: Option<It> = if stat { acc[j] } else { None };
                    for x in items {
                        match a.as_mut() {
                            None => a = Some(x),
                            Some(v) => rt::red_comm(f, v, x),
                        }
                    }
                    if stat {
                        acc[j] = a;
                    }
                    row.push(Val::Opt(a));
                }
                StateKind::Handoff => {
                    let mut v = items;
                    v.sort();
                    row.push(Val::Many(v));
                }
            }
        }
        out.push(row);
    }
    out
}

/// Apply the mutation of a `#mut` closure to the model value.
pub fn apply_mut(v: &mut Val, f: u8, x: It) {
    match v {
        Val::One(a) => rt::mut_one(f, a, x),
        Val::Opt(a) => rt::mut_opt(f, a, x),
        Val::Many(b) => {
            rt::mut_many(f, b, x);
            b.sort();
        }
    }
}
