//! dx_shape: generated-program monitors for C22 (pull/push placement independence), C25 (references read
//! settled state, access groups run in order) and C26 (loop blocks iterate to a fixpoint with correct
//! windowing). See `/verif/vlib/drv_dxshape.py` for how the generated workspace is built and run.

pub mod analyze;
pub mod ast;
pub mod chk22;
pub mod chk25;
pub mod chk26;
pub mod driver;
pub mod emit;
pub mod g22;
pub mod g25;
pub mod g26;
pub use dxs_rt as rt;
