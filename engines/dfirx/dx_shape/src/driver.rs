//! Entry point of the generated `run` binary, and the generator itself.

use std::collections::BTreeMap;

use vcommon::Rng;

use crate::emit::Manifest;
use crate::rt::Registry;

/// Number of (C22 groups, C25 programs, C26 programs) per tier.
pub fn sizes(tier: &str) -> (usize, usize, usize) {
    match tier {
        "thorough" => (200, 80, 80),
        "miri" => (2, 2, 2),
        _ => (32, 24, 24),
    }
}

/// Number of crates the programs are spread over (cargo compiles them in parallel).
pub fn n_parts(tier: &str) -> usize {
    match tier {
        "thorough" => 48,
        "miri" => 1,
        _ => 12,
    }
}

/// `only`: generate the programs of one property only (used for mutation validation runs, where the whole
/// workspace would otherwise be recompiled for every mutated compiler).
pub fn generate(seed: u64, tier: &str, only: Option<&str>) -> Manifest {
    let (mut n22, mut n25, mut n26) = sizes(tier);
    if let Some(o) = only {
        if o != "C22" {
            n22 = 0;
        }
        if o != "C25" {
            n25 = 0;
        }
        if o != "C26" {
            n26 = 0;
        }
    }
    let mut m = Manifest { seed, tier: tier.to_string(), ..Default::default() };
    let base = Rng::new(seed ^ if tier == "thorough" { 0x7407 } else { 0 });
    let mut usage: BTreeMap<String, u64> = BTreeMap::new();
    let mut rejects = Vec::new();
    let mut fns = BTreeMap::new();
    for gid in 0..n22 {
        let mut r = base.fork(0x22_000 + gid as u64);
        m.c22.push(crate::g22::gen_group(gid, &mut r, &mut usage, &mut rejects, &mut fns));
    }
    for i in 0..n25 {
        let mut r = base.fork(0x25_000 + i as u64);
        m.c25.push(crate::g25::gen_prog(i, &mut r, &mut rejects, &mut fns));
    }
    for i in 0..n26 {
        let mut r = base.fork(0x26_000 + i as u64);
        m.c26.push(crate::g26::gen_prog(i, &mut r, &mut rejects, &mut fns));
    }
    m.gen_rejects = rejects;
    m.fns = fns;
    // build-time optimisation: programs with an operator in a position that has been seen to defeat rustc's
    // type inference get a crate of their own, so that the first cargo pass already attributes the failure
    for g in &m.c22 {
        for v in &g.variants {
            let suspect = g.kinds.iter().any(|(name, kind)| kind.starts_with("multiset_delta") && v.analysis.colors.get(name).map(|c| c == "Push").unwrap_or(false));
            if v.analysis.ok && suspect {
                m.singles.push(v.prog_id.clone());
            }
        }
    }
    m
}

pub fn run_main(manifest_json: &str, reg: &Registry) {
    let args = vcommon::Args::parse();
    if args.prop == "NONE" {
        return;
    }
    let m: Manifest = match serde_json::from_str(manifest_json) {
        Ok(m) => m,
        Err(e) => {
            eprintln!("bad manifest: {e}");
            std::process::exit(3);
        }
    };
    match args.prop.as_str() {
        "C22" => crate::chk22::run(&args, &m, reg),
        "C25" => crate::chk25::run(&args, &m, reg),
        "C26" => crate::chk26::run(&args, &m, reg),
        p => {
            eprintln!("dx_shape serves C22, C25, C26 (got {p})");
            std::process::exit(3);
        }
    }
}
