//! C26: programs with nested `loop { }` blocks (depth <= 3), `batch()` / `batch_lazy()` / `all_iterations()`
//! windowing, `defer_tick()` / `defer_tick_lazy()` inside loops (countdown and bounded-reachability
//! fixpoints), taps that log the items of every body run; plus the small explicit reference of the documented
//! loop semantics.

use std::collections::{BTreeMap, BTreeSet};

use serde::{Deserialize, Serialize};
use vcommon::Rng;

use crate::analyze::analyze;
use crate::ast::Prog;
use crate::rt::{self, History, It};

#[derive(Clone, Debug, Serialize, Deserialize, PartialEq, Eq)]
pub enum Op26 {
    Source(usize),
    Map(u8),
    Filter(u8),
    /// `filter(a > 0)` of a countdown
    Pos,
    /// `map((a, b) -> (a - 1, b))` of a countdown
    Dec,
    /// `flat_map(neigh)` of a bounded reachability
    Neigh(u8),
    /// `unique::<'tick>()`
    Unique,
    Union,
    Identity,
    Batch,
    BatchLazy,
    AllIter,
    Defer,
    DeferLazy,
    /// `inspect(log) -> fold(count) -> for_each(end-of-run marker)`
    Tap(u16),
}

#[derive(Clone, Debug, Serialize, Deserialize)]
pub struct N26 {
    pub op: Op26,
    pub ins: Vec<usize>,
    pub lp: usize,
}

#[derive(Clone, Debug, Serialize, Deserialize)]
pub struct P26 {
    pub prog_id: String,
    pub n_src: usize,
    pub nodes: Vec<N26>,
    /// loop_parent[l]; index 0 = top level
    pub loop_parent: Vec<usize>,
    /// loops in textual pre-order (position k <-> k-th loop of the compiled program)
    pub loop_text_order: Vec<usize>,
    pub text: String,
    /// (site, loop) of every tap
    pub taps: Vec<(u16, usize)>,
    /// cycle families used, for coverage: countdown | reach | oneshot | none
    pub families: Vec<String>,
    pub max_depth: usize,
}

impl P26 {
    pub fn depth(&self, lp: usize) -> usize {
        let mut d = 0;
        let mut l = lp;
        while l != 0 {
            d += 1;
            l = self.loop_parent[l];
        }
        d
    }
}

// ---------------------------------------------------------------------------------------------
// generation

struct G<'a> {
    rng: &'a mut Rng,
    nodes: Vec<N26>,
    loop_parent: Vec<usize>,
    next_site: u16,
    taps: Vec<(u16, usize)>,
    families: Vec<String>,
    max_depth: usize,
}

impl<'a> G<'a> {
    fn add(&mut self, op: Op26, ins: Vec<usize>, lp: usize) -> usize {
        self.nodes.push(N26 { op, ins, lp });
        self.nodes.len() - 1
    }
    fn tap(&mut self, src: usize, lp: usize) {
        let site = self.next_site;
        self.next_site += 1;
        self.add(Op26::Tap(site), vec![src], lp);
        self.taps.push((site, lp));
    }
    /// A few stateless unary operators on `src` (never touching `.0` if `keep_a`).
    fn decorate(&mut self, src: usize, lp: usize, keep_a: bool) -> usize {
        let mut cur = src;
        for _ in 0..self.rng.below(3) {
            cur = match self.rng.below(4) {
                0 => self.add(Op26::Identity, vec![cur], lp),
                1 => self.add(Op26::Map(4), vec![cur], lp), // only touches .1
                2 if !keep_a => {
                    let f = self.rng.below(rt::N_MAPF as usize) as u8;
                    self.add(Op26::Map(f), vec![cur], lp)
                }
                _ => {
                    let f = *self.rng.choose(&[1u8, 3, 4]); // predicates that do not depend on .0 alone
                    self.add(Op26::Filter(f), vec![cur], lp)
                }
            };
        }
        cur
    }

    /// Generate a loop under `parent` fed from the parent-level streams `avail`. Returns the `all_iterations()`
    /// nodes it created at the parent level.
    fn gen_loop(&mut self, parent: usize, depth: usize, avail: &[usize]) -> Vec<usize> {
        self.loop_parent.push(parent);
        let lp = self.loop_parent.len() - 1;
        self.max_depth = self.max_depth.max(depth);
        // entries
        let n_entries = 1 + self.rng.below(2.min(avail.len()));
        let mut entries = Vec::new();
        let all_lazy = self.rng.chance(1, 12);
        for k in 0..n_entries {
            let src = *self.rng.choose(avail);
            let lazy = all_lazy || (k > 0 && self.rng.chance(1, 2));
            let e = self.add(if lazy { Op26::BatchLazy } else { Op26::Batch }, vec![src], lp);
            entries.push(e);
        }
        let mut streams: Vec<usize> = Vec::new();
        // the main stream: union of the entries (+ later the deferred feedback)
        let merged = if entries.len() > 1 || self.rng.chance(3, 4) {
            let u = self.add(Op26::Union, entries.clone(), lp);
            Some(u)
        } else {
            None
        };
        let main = merged.unwrap_or(entries[0]);
        let family = if merged.is_some() { *self.rng.choose(&["countdown", "countdown", "reach", "oneshot", "none"]) } else { "none" };
        self.families.push(family.to_string());
        // in a reach loop the stream is de-duplicated right after the union
        let body_head = if family == "reach" { self.add(Op26::Unique, vec![main], lp) } else { main };
        streams.push(body_head);
        self.tap(body_head, lp);
        let mut work = self.decorate(body_head, lp, true);
        if work != body_head {
            streams.push(work);
        }
        // child loops (their outputs may feed the feedback path)
        if depth < 3 && self.rng.chance(if depth == 1 { 3 } else { 2 }, 5) {
            let outs = self.gen_loop(lp, depth + 1, &streams.clone());
            for o in &outs {
                streams.push(*o);
            }
            if !outs.is_empty() && self.rng.chance(1, 2) {
                work = outs[0];
            }
            if depth < 3 && self.rng.chance(1, 4) {
                // a sibling loop
                let outs2 = self.gen_loop(lp, depth + 1, &streams.clone());
                for o in outs2 {
                    streams.push(o);
                    if self.rng.chance(1, 2) {
                        self.tap(o, lp);
                    }
                }
            }
        }
        // feedback
        let lazy_defer = self.rng.chance(1, 7);
        let dop = if lazy_defer { Op26::DeferLazy } else { Op26::Defer };
        match family {
            "countdown" => {
                let f = self.add(Op26::Pos, vec![work], lp);
                let m = self.add(Op26::Dec, vec![f], lp);
                let d = self.add(dop, vec![m], lp);
                self.nodes[merged.unwrap()].ins.push(d);
            }
            "reach" => {
                let id = self.rng.below(3) as u8;
                let n = self.add(Op26::Neigh(id), vec![work], lp);
                let d = self.add(dop, vec![n], lp);
                self.nodes[merged.unwrap()].ins.push(d);
            }
            "oneshot" => {
                // entry -> defer -> union: the batch is seen again exactly one iteration later
                let d = self.add(dop, vec![entries[0]], lp);
                self.nodes[merged.unwrap()].ins.push(d);
            }
            _ => {}
        }
        if self.rng.chance(1, 3) && streams.len() > 1 {
            let s = *self.rng.choose(&streams);
            self.tap(s, lp);
        }
        // exits
        let mut outs = Vec::new();
        let n_exits = 1 + self.rng.below(2);
        for _ in 0..n_exits {
            let s = *self.rng.choose(&streams);
            let o = self.add(Op26::AllIter, vec![s], parent);
            outs.push(o);
        }
        outs
    }
}

/// Build the DFIR program (explicit `tee()` wherever a stream has several consumers).
fn build(p: &P26) -> Prog {
    let mut prog = Prog::new(p.n_src);
    prog.loop_parent = p.loop_parent.clone();
    let fan = |i: usize| -> usize { p.nodes.iter().map(|n| n.ins.iter().filter(|&&s| s == i).count()).sum() };
    let mut out_idx = Vec::new();
    let mut own = Vec::new();
    for (i, n) in p.nodes.iter().enumerate() {
        let m = "dxs_rt::";
        let (kind, text): (&str, String) = match &n.op {
            Op26::Source(s) => ("source_stream", format!("source_stream(rx{s})")),
            Op26::Map(f) => ("map", format!("map(|x: It| {m}mapf({f}, x))")),
            Op26::Filter(f) => ("filter", format!("filter(|x: &It| {m}predf({f}, x))")),
            Op26::Pos => ("filter", "filter(|x: &It| x.0 > 0)".into()),
            Op26::Dec => ("map", "map(|x: It| (x.0 - 1, x.1))".into()),
            Op26::Neigh(f) => ("flat_map", format!("flat_map(|x: It| {m}neigh({f}, x))")),
            Op26::Unique => ("unique", "unique::<'tick>()".into()),
            Op26::Union => ("union", "union()".into()),
            Op26::Identity => ("identity", "identity::<It>()".into()),
            Op26::Batch => ("batch", "batch()".into()),
            Op26::BatchLazy => ("batch_lazy", "batch_lazy()".into()),
            Op26::AllIter => ("all_iterations", "all_iterations()".into()),
            Op26::Defer => ("defer_tick", "defer_tick()".into()),
            Op26::DeferLazy => ("defer_tick_lazy", "defer_tick_lazy()".into()),
            Op26::Tap(site) => ("inspect", format!("inspect(|x: &It| rec_p{site}.item({site}, *x))")),
        };
        let me = prog.add(&format!("n{i}"), kind, &text, vec![], n.lp, "It");
        own.push(me);
        if let Op26::Tap(site) = &n.op {
            let f = prog.add(&format!("n{i}c"), "fold", "fold::<'tick>(|| 0u32, |c: &mut u32, _x: It| *c += 1)", vec![(me, None)], n.lp, "u32");
            prog.add(&format!("n{i}e"), "for_each", &format!("for_each(|_c: u32| rec_p{site}.end({site}))"), vec![(f, None)], n.lp, "()");
            out_idx.push(me);
        } else if fan(i) > 1 {
            let t = prog.add(&format!("n{i}t"), "tee", "tee()", vec![(me, None)], n.lp, "It");
            out_idx.push(t);
        } else if fan(i) == 0 {
            // dangling stream: absorb
            prog.add(&format!("n{i}z"), "null", "null::<It>()", vec![(me, None)], n.lp, "()");
            out_idx.push(me);
        } else {
            out_idx.push(me);
        }
    }
    for (i, n) in p.nodes.iter().enumerate() {
        prog.nodes[own[i]].ins = n.ins.iter().map(|&s| (out_idx[s], None)).collect();
    }
    prog
}

pub fn gen_prog(idx: usize, rng: &mut Rng, rejects: &mut Vec<String>, fns: &mut BTreeMap<String, String>) -> P26 {
    loop {
        let n_src = 1 + rng.below(3);
        let mut g = G { rng, nodes: Vec::new(), loop_parent: vec![0], next_site: 0, taps: Vec::new(), families: Vec::new(), max_depth: 0 };
        let mut avail = Vec::new();
        for s in 0..n_src {
            let n = g.add(Op26::Source(s), vec![], 0);
            let d = if g.rng.chance(1, 3) {
                let f = g.rng.below(rt::N_MAPF as usize) as u8;
                g.add(Op26::Map(f), vec![n], 0)
            } else {
                n
            };
            avail.push(d);
        }
        let n_root = 1 + g.rng.below(2);
        for _ in 0..n_root {
            let outs = g.gen_loop(0, 1, &avail.clone());
            for o in outs {
                // root-level tap on what left the loop (runs once per tick)
                g.tap(o, 0);
            }
        }
        let (nodes, loop_parent, taps, families, max_depth) = (g.nodes, g.loop_parent, g.taps, g.families, g.max_depth);
        let mut p = P26 { prog_id: format!("c26_p{idx}"), n_src, nodes, loop_parent, loop_text_order: vec![], text: String::new(), taps, families, max_depth };
        let prog = build(&p);
        let (text, loops) = prog.emit_with_loops(Some(rng.next_u64()));
        let a = analyze(&text);
        if !a.ok {
            rejects.push(format!("C26 program rejected by the front end: {} :: {}", a.err, text.replace('\n', " ")));
            if rejects.len() > 200 {
                panic!("too many rejected programs: {:?}", &rejects[..3]);
            }
            continue;
        }
        p.text = text;
        p.loop_text_order = loops;
        fns.insert(p.prog_id.clone(), prog.emit_fn(&p.prog_id, &p.text));
        return p;
    }
}

// ---------------------------------------------------------------------------------------------
// reference of the documented loop semantics

#[derive(Clone, Debug, Default)]
pub struct Ref26 {
    /// (site, tick) -> the item multiset (sorted) of every run of the tap, in run order
    pub taps: BTreeMap<(u16, u32), Vec<Vec<It>>>,
    /// per tick: loop -> number of body runs
    pub loop_runs: Vec<BTreeMap<usize, u64>>,
}

enum Unit {
    Node(usize),
    Loop(usize),
}

struct Interp<'a> {
    p: &'a P26,
    h: &'a History,
    t: usize,
    vals: Vec<Vec<It>>,
    buf: BTreeMap<usize, Vec<It>>,
    seen: BTreeMap<usize, BTreeSet<It>>,
    exit_acc: BTreeMap<usize, Vec<It>>,
    order: Vec<Vec<Unit>>,
    out: Ref26,
}

/// which loop (direct child of `lp`) contains loop `l`, if any
fn child_towards(p: &P26, lp: usize, mut l: usize) -> Option<usize> {
    while l != 0 {
        if p.loop_parent[l] == lp {
            return Some(l);
        }
        l = p.loop_parent[l];
    }
    None
}

fn unit_order(p: &P26, lp: usize) -> Vec<Unit> {
    // units: nodes directly in lp, and direct child loops; Kahn over same-iteration dependencies
    #[derive(Clone, Copy, PartialEq, Eq, PartialOrd, Ord)]
    enum U {
        N(usize),
        L(usize),
    }
    let mut units: Vec<U> = Vec::new();
    for (i, n) in p.nodes.iter().enumerate() {
        if n.lp == lp {
            units.push(U::N(i));
        }
    }
    for l in 1..p.loop_parent.len() {
        if p.loop_parent[l] == lp {
            units.push(U::L(l));
        }
    }
    let mut deps: BTreeMap<U, BTreeSet<U>> = units.iter().map(|u| (*u, BTreeSet::new())).collect();
    for (i, n) in p.nodes.iter().enumerate() {
        match n.op {
            Op26::Defer | Op26::DeferLazy => continue, // reads its buffer, not this iteration's input
            _ => {}
        }
        if n.lp == lp {
            for &s in &n.ins {
                let sl = p.nodes[s].lp;
                if sl == lp {
                    deps.get_mut(&U::N(i)).unwrap().insert(U::N(s));
                } else if let Some(c) = child_towards(p, lp, sl) {
                    // all_iterations: input lives in a child loop
                    deps.get_mut(&U::N(i)).unwrap().insert(U::L(c));
                }
            }
        } else if let Some(c) = child_towards(p, lp, n.lp) {
            // a node inside a child loop reading a node of this level (batch entry)
            for &s in &n.ins {
                if p.nodes[s].lp == lp {
                    deps.get_mut(&U::L(c)).unwrap().insert(U::N(s));
                }
            }
        }
    }
    let mut done: BTreeSet<U> = BTreeSet::new();
    let mut order = Vec::new();
    while done.len() < units.len() {
        let next = units.iter().find(|u| !done.contains(u) && deps[u].iter().all(|d| done.contains(d))).copied();
        let u = next.expect("reference: same-iteration cycle in a generated program (generator bug)");
        done.insert(u);
        order.push(match u {
            U::N(i) => Unit::Node(i),
            U::L(l) => Unit::Loop(l),
        });
    }
    order
}

impl<'a> Interp<'a> {
    fn body(&mut self, lp: usize, first: bool) {
        let p: &'a P26 = self.p;
        let n_units = self.order[lp].len();
        for k in 0..n_units {
            match self.order[lp][k] {
                Unit::Loop(c) => self.run_loop(c),
                Unit::Node(i) => {
                    let n = &p.nodes[i];
                    let input = |s: &Self, k: usize| -> Vec<It> { s.vals[n.ins[k]].clone() };
                    let v: Vec<It> = match &n.op {
                        Op26::Source(s) => self.h.ticks[self.t][*s].clone(),
                        Op26::Map(f) => input(self, 0).into_iter().map(|x| rt::mapf(*f, x)).collect(),
                        Op26::Filter(f) => input(self, 0).into_iter().filter(|x| rt::predf(*f, x)).collect(),
                        Op26::Pos => input(self, 0).into_iter().filter(|x| x.0 > 0).collect(),
                        Op26::Dec => input(self, 0).into_iter().map(|x| (x.0 - 1, x.1)).collect(),
                        Op26::Neigh(f) => input(self, 0).into_iter().flat_map(|x| rt::neigh(*f, x)).collect(),
                        Op26::Unique => {
                            let seen = self.seen.entry(i).or_default();
                            let mut o = Vec::new();
                            for x in self.vals[n.ins[0]].clone() {
                                if seen.insert(x) {
                                    o.push(x);
                                }
                            }
                            o
                        }
                        Op26::Union => {
                            let mut o = Vec::new();
                            for k in 0..n.ins.len() {
                                o.extend(input(self, k));
                            }
                            o
                        }
                        Op26::Identity => input(self, 0),
                        // windowing: the whole parent batch is released on the first iteration, nothing afterwards
                        Op26::Batch | Op26::BatchLazy => {
                            if first {
                                input(self, 0)
                            } else {
                                Vec::new()
                            }
                        }
                        // un-windowing: everything the loop emitted over all its iterations
                        Op26::AllIter => self.exit_acc.get(&n.ins[0]).cloned().unwrap_or_default(),
                        // delayed by exactly one iteration (one tick in a root-level loop)
                        Op26::Defer | Op26::DeferLazy => std::mem::take(self.buf.entry(i).or_default()),
                        Op26::Tap(site) => {
                            let mut v = input(self, 0);
                            v.sort();
                            self.out.taps.entry((*site, self.t as u32)).or_default().push(v);
                            Vec::new()
                        }
                    };
                    self.vals[i] = v;
                }
            }
        }
        // end of the body run: stash deferred data, collect loop outputs
        for (i, n) in p.nodes.iter().enumerate() {
            if n.lp != lp {
                continue;
            }
            if matches!(n.op, Op26::Defer | Op26::DeferLazy) {
                self.buf.insert(i, self.vals[n.ins[0]].clone());
            }
        }
        if lp != 0 {
            let parent = p.loop_parent[lp];
            let exits: BTreeSet<usize> =
                p.nodes.iter().filter(|n| n.lp == parent && n.op == Op26::AllIter && p.nodes[n.ins[0]].lp == lp).map(|n| n.ins[0]).collect();
            for x in exits {
                let v = self.vals[x].clone();
                self.exit_acc.entry(x).or_default().extend(v);
            }
        }
    }

    fn run_loop(&mut self, c: usize) {
        // outputs of a previous activation are gone
        let p: &'a P26 = self.p;
        let parent = p.loop_parent[c];
        for n in p.nodes.iter() {
            if n.lp == parent && n.op == Op26::AllIter && p.nodes[n.ins[0]].lp == c {
                self.exit_acc.insert(n.ins[0], Vec::new());
            }
        }
        let root_level = parent == 0;
        let mut first = true;
        loop {
            // re-run iff a non-lazy entry input or a non-lazy loop-delayed buffer is non-empty
            let mut gate = false;
            for (i, n) in p.nodes.iter().enumerate() {
                if n.lp != c {
                    continue;
                }
                match n.op {
                    Op26::Batch => {
                        if first && !self.vals[n.ins[0]].is_empty() {
                            gate = true;
                        }
                    }
                    Op26::Defer => {
                        if self.buf.get(&i).is_some_and(|b| !b.is_empty()) {
                            gate = true;
                        }
                    }
                    _ => {}
                }
            }
            if !gate {
                break;
            }
            self.body(c, first);
            *self.out.loop_runs[self.t].entry(c).or_insert(0) += 1;
            first = false;
            if root_level {
                break; // a root-level loop is fused with the tick: at most one run per tick
            }
        }
    }
}

pub fn reference(p: &P26, h: &History) -> Ref26 {
    let order = (0..p.loop_parent.len()).map(|l| unit_order(p, l)).collect();
    let mut it = Interp {
        p,
        h,
        t: 0,
        vals: vec![Vec::new(); p.nodes.len()],
        buf: BTreeMap::new(),
        seen: BTreeMap::new(),
        exit_acc: BTreeMap::new(),
        order,
        out: Ref26::default(),
    };
    for t in 0..h.n_ticks() {
        it.t = t;
        it.out.loop_runs.push(BTreeMap::new());
        it.body(0, true);
        *it.out.loop_runs[t].entry(0).or_insert(0) += 1;
        it.seen.clear(); // 'tick state is cleared at the end of the tick
    }
    it.out
}
