//! Runs the real compiler front end (`dfir_lang::graph::build_dfir_code`, i.e. exactly what the `dfir_syntax!`
//! macro runs) on a program text and reads the pull/push colour of every named operator and the subgraph
//! partition out of the partitioned graph.

use std::collections::BTreeMap;

use dfir_lang::graph::{Color, GraphNode, build_dfir_code};
use dfir_lang::parse::DfirCode;
use serde::{Deserialize, Serialize};

#[derive(Clone, Debug, Default, Serialize, Deserialize, PartialEq, Eq)]
pub struct Analysis {
    /// front end accepted the program
    pub ok: bool,
    /// first error diagnostics (or panic message) if not ok
    pub err: String,
    /// varname -> "Pull" | "Push" | "Comp" for operator nodes (one operator per varname in our programs)
    pub colors: BTreeMap<String, String>,
    /// varname -> index of the subgraph (position in the toposort) the operator landed in
    pub subgraph_of: BTreeMap<String, usize>,
    pub n_subgraphs: usize,
    pub n_handoffs: usize,
    pub n_loops: usize,
}

pub fn analyze(text: &str) -> Analysis {
    let mut a = Analysis::default();
    let code: DfirCode = match syn::parse_str(text) {
        Ok(c) => c,
        Err(e) => {
            a.err = format!("parse error: {e}");
            return a;
        }
    };
    let root: proc_macro2::TokenStream = "dfir_rs".parse().unwrap();
    let res = vcommon::catch(|| build_dfir_code(code, &root));
    let out = match res {
        Err(p) => {
            a.err = format!("front end panicked: {p}");
            return a;
        }
        Ok(Err(diags)) => {
            let msgs: Vec<String> = diags.iter().map(|d| format!("{:?}: {}", d.level, d.message)).collect();
            a.err = msgs.join(" | ");
            return a;
        }
        Ok(Ok(o)) => o,
    };
    let g = out.partitioned_graph;
    let cm = g.node_color_map();
    let order: Vec<_> = g.subgraph_toposort().to_vec();
    for (nid, node) in g.nodes() {
        match node {
            GraphNode::Operator(_) => {
                if let Some(v) = g.node_varname(nid) {
                    let name = v.0.to_string();
                    if let Some(c) = cm.get(nid) {
                        let c = match c {
                            Color::Pull => "Pull",
                            Color::Push => "Push",
                            Color::Comp => "Comp",
                            Color::Hoff => "Hoff",
                        };
                        a.colors.insert(name.clone(), c.to_string());
                    }
                    if let Some(sg) = g.node_subgraph(nid) {
                        if let Some(p) = order.iter().position(|&s| s == sg) {
                            a.subgraph_of.insert(name, p);
                        }
                    }
                }
            }
            GraphNode::Handoff { .. } => a.n_handoffs += 1,
            GraphNode::ModuleBoundary { .. } => {}
        }
    }
    a.n_subgraphs = g.subgraph_ids().count();
    a.n_loops = g.loop_ids().count();
    a.ok = true;
    a
}
