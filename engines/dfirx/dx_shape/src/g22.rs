//! C22: seeded generator of base programs over the uniform item type `It = (i64, i64)` and of their
//! *shape variants* (semantically identical programs that differ only in how the compiler will realise
//! the operators: pull vs push, split/merged subgraphs, declaration order).

use std::collections::{BTreeMap, BTreeSet};

use serde::{Deserialize, Serialize};
use vcommon::Rng;

use crate::analyze::{Analysis, analyze};
use crate::ast::Prog;

pub const IT: &str = "It";

/// An observation point: a sink, a user-level `inspect`, or a tap behind a stateful / multi-input operator.
#[derive(Clone, Debug, Serialize, Deserialize)]
pub struct Sink22 {
    pub site: u16,
    /// variable name of the observed operator (for a sink / inspect: the operator itself)
    pub name: String,
    /// the order of the items at this point within a tick is defined by the documentation
    pub ordered: bool,
    /// (varname, kind) of the observed operator (first) and of the unobserved operators between it and `preds`
    pub between: Vec<(String, String)>,
    /// sites of the nearest upstream observation points
    pub preds: Vec<u16>,
    /// a real sink (`for_each`). Only differences at sinks are violations: whether an `inspect` in the middle of
    /// a pull pipeline is evaluated at all legitimately depends on the shape (e.g. `cross_singleton` documents
    /// that it short-circuits its input side); taps and user-level inspects serve the attribution only.
    pub is_sink: bool,
}

/// per-item operators (and plumbing) that get no tap of their own
pub const PURE: &[&str] = &["map", "filter", "flat_map", "filter_map", "inspect", "intap", "tee", "source_stream", "for_each", "union", "tap"];

pub fn base_kind(kind: &str) -> String {
    kind.split(['\'', ':']).next().unwrap().to_string()
}

#[derive(Clone, Debug, Serialize, Deserialize)]
pub struct Variant22 {
    pub vid: usize,
    pub prog_id: String,
    pub inserts: Vec<String>,
    pub order_seed: Option<u64>,
    pub text: String,
    pub analysis: Analysis,
    /// base operators whose colour differs from the base program's: (varname, kind, base colour, this colour)
    pub flips: Vec<(String, String, String, String)>,
    /// the subgraph count differs from the base program's
    pub sg_changed: bool,
    /// set in the final pass if rustc rejected this (and only this) program
    pub rustc_error: Option<String>,
    /// `Some(kind)`: the only insertion sits on exactly ONE input of the binary operator of that kind (the other
    /// input stays as in the base program)
    #[serde(default)]
    pub one_sided: Option<String>,
}

/// A binary operator of the base program with the observation points on its two inputs.
#[derive(Clone, Debug, Serialize, Deserialize)]
pub struct BinOp22 {
    pub name: String,
    pub kind: String,
    pub site_a: u16,
    pub site_b: u16,
}

#[derive(Clone, Debug, Serialize, Deserialize)]
pub struct Group22 {
    pub gid: usize,
    pub n_src: usize,
    pub sinks: Vec<Sink22>,
    /// varname -> kind of every base operator
    pub kinds: BTreeMap<String, String>,
    /// variants[0] is the base program as generated
    pub variants: Vec<Variant22>,
    /// binary operators (join family, anti_join, difference, cross_singleton, zip); bins[0] is the forced one
    #[serde(default)]
    pub bins: Vec<BinOp22>,
}

// ---------------------------------------------------------------------------------------------
// logical graph while generating

#[derive(Clone, Debug)]
struct LNode {
    kind: String,
    text: String,
    ins: Vec<(usize, Option<&'static str>)>,
    ty: String,
    ordered: bool,
    single: bool,
    /// eligible as an input of further operators (type `It`)
    open: bool,
    /// sink/tap site if any
    site: Option<u16>,
    is_sink: bool,
}

struct Gen<'a> {
    rng: &'a mut Rng,
    nodes: Vec<LNode>,
    usage: &'a mut BTreeMap<String, u64>,
    next_site: u16,
    /// persistence arguments to use for the next binary operator (coverage of every combination)
    force_pers: Option<&'static str>,
    /// (logical index of the operator, site of the tap on input a, on input b)
    bins: Vec<(usize, u16, u16)>,
}

pub const BIN_FAMILIES: &[&str] = &["anti_join", "difference", "join", "cross_singleton", "zip"];
const PERS2: &[&str] = &["::<'tick, 'static>", "::<'static, 'tick>", "", "::<'static, 'static>", "::<'tick>", "::<'static>"];
const PERS1: &[&str] = &["", "::<'static>", "::<'tick>"];

fn pers(rng: &mut Rng) -> &'static str {
    *rng.choose(&["", "::<'tick>", "::<'static>"])
}
fn pers2(rng: &mut Rng) -> &'static str {
    *rng.choose(&["", "::<'tick>", "::<'static>", "::<'tick, 'static>", "::<'static, 'tick>", "::<'static, 'static>"])
}
fn kind_of(op: &str, p: &str) -> String {
    let p = p.trim_start_matches("::<").trim_end_matches('>').replace(", ", ",");
    if p.is_empty() { op.to_string() } else { format!("{op}{p}") }
}

const OPS: &[&str] = &[
    "map", "filter", "flat_map", "filter_map", "union", "join", "anti_join", "difference", "fold", "reduce",
    "unique", "sort", "cross_singleton", "persist", "defer_tick", "enumerate", "zip", "fold_keyed",
    "reduce_keyed", "sort_by_key", "scan", "multiset_delta", "fold_no_replay", "reduce_no_replay", "inspect",
    "fold_ord", "cycle",
];

impl<'a> Gen<'a> {
    fn push(&mut self, kind: &str, text: &str, ins: Vec<(usize, Option<&'static str>)>, ty: &str, ordered: bool, single: bool) -> usize {
        self.nodes.push(LNode {
            kind: kind.to_string(),
            text: text.to_string(),
            ins,
            ty: ty.to_string(),
            ordered,
            single,
            open: ty == IT,
            site: None,
            is_sink: false,
        });
        self.nodes.len() - 1
    }
    /// An observation point on an input of a binary operator (inline: `inspect` is a 1-in-1-out operator, it
    /// neither forces a handoff nor a colour).
    fn in_tap(&mut self, a: usize) -> (usize, u16) {
        let site = self.next_site;
        self.next_site += 1;
        let (o, s) = (self.nodes[a].ordered, self.nodes[a].single);
        let i = self.push("intap", &format!("inspect(|x: &It| rec_t{site}.item({site}, *x))"), vec![(a, None)], IT, o, s);
        self.nodes[i].site = Some(site);
        self.nodes[i].open = false;
        (i, site)
    }
    fn pers2(&mut self) -> &'static str {
        match self.force_pers.take() {
            Some(p) => p,
            None => pers2(self.rng),
        }
    }
    fn fanout(&self, i: usize) -> usize {
        self.nodes.iter().map(|n| n.ins.iter().filter(|(s, _)| *s == i).count()).sum()
    }
    /// pick an input stream; prefers not-yet-consumed streams
    fn pick(&mut self, need_ordered: bool, need_single: bool, exclude: &[usize]) -> Option<usize> {
        let cands: Vec<usize> = (0..self.nodes.len())
            .filter(|&i| {
                let n = &self.nodes[i];
                n.open && !exclude.contains(&i) && (!need_ordered || n.ordered) && (!need_single || n.single) && self.fanout(i) < 3
            })
            .collect();
        if cands.is_empty() {
            return None;
        }
        let fresh: Vec<usize> = cands.iter().copied().filter(|&i| self.fanout(i) == 0).collect();
        if !fresh.is_empty() && self.rng.chance(3, 4) {
            Some(*self.rng.choose(&fresh))
        } else {
            Some(*self.rng.choose(&cands))
        }
    }
    fn choose_op(&mut self) -> &'static str {
        // coverage driven: of three random candidates take the least used so far
        let mut best: Option<&'static str> = None;
        for _ in 0..3 {
            let c = *self.rng.choose(OPS);
            let u = |k: &str| self.usage.get(k).copied().unwrap_or(0);
            if best.is_none() || u(c) < u(best.unwrap()) {
                best = Some(c);
            }
        }
        best.unwrap()
    }

    /// add one (possibly compound) operator; returns false if its input requirements cannot be met
    fn step(&mut self, op: &str) -> bool {
        let m = "dxs_rt::";
        match op {
            "map" => {
                let Some(a) = self.pick(false, false, &[]) else { return false };
                let id = self.rng.below(8);
                let (o, s) = (self.nodes[a].ordered, self.nodes[a].single);
                self.push("map", &format!("map(|x: It| {m}mapf({id}, x))"), vec![(a, None)], IT, o, s);
            }
            "filter" => {
                let Some(a) = self.pick(false, false, &[]) else { return false };
                let id = self.rng.below(6);
                let (o, s) = (self.nodes[a].ordered, self.nodes[a].single);
                self.push("filter", &format!("filter(|x: &It| {m}predf({id}, x))"), vec![(a, None)], IT, o, s);
            }
            "flat_map" => {
                let Some(a) = self.pick(false, false, &[]) else { return false };
                let id = self.rng.below(3);
                let o = self.nodes[a].ordered;
                self.push("flat_map", &format!("flat_map(|x: It| {m}flatf({id}, x))"), vec![(a, None)], IT, o, false);
            }
            "filter_map" => {
                let Some(a) = self.pick(false, false, &[]) else { return false };
                let (p, f) = (self.rng.below(6), self.rng.below(8));
                let (o, s) = (self.nodes[a].ordered, self.nodes[a].single);
                self.push(
                    "filter_map",
                    &format!("filter_map(|x: It| if {m}predf({p}, &x) {{ Some({m}mapf({f}, x)) }} else {{ None }})"),
                    vec![(a, None)],
                    IT,
                    o,
                    s,
                );
            }
            "inspect" => {
                let Some(a) = self.pick(false, false, &[]) else { return false };
                let site = self.next_site;
                self.next_site += 1;
                let (o, s) = (self.nodes[a].ordered, self.nodes[a].single);
                let i = self.push("inspect", &format!("inspect(|x: &It| rec_t{site}.item({site}, *x))"), vec![(a, None)], IT, o, s);
                self.nodes[i].site = Some(site);
            }
            "union" => {
                let Some(a) = self.pick(false, false, &[]) else { return false };
                let Some(b) = self.pick(false, false, &[a]) else { return false };
                let mut ins = vec![(a, None), (b, None)];
                if self.rng.chance(1, 4) {
                    if let Some(c) = self.pick(false, false, &[a, b]) {
                        ins.push((c, None));
                    }
                }
                self.push("union", "union()", ins, IT, false, false);
            }
            "join" => {
                let Some(a) = self.pick(false, false, &[]) else { return false };
                let Some(b) = self.pick(false, false, &[a]) else { return false };
                let p = self.pers2();
                let ((a, sa), (b, sb)) = (self.in_tap(a), self.in_tap(b));
                let j = self.push(&kind_of("join", p), &format!("join{p}()"), vec![(a, Some("0")), (b, Some("1"))], "(i64, (i64, i64))", false, false);
                self.bins.push((j, sa, sb));
                self.push("map", &format!("map(|(k, (a, b)): (i64, (i64, i64))| (k, (a * 3 + b).rem_euclid({m}M)))"), vec![(j, None)], IT, false, false);
            }
            "anti_join" => {
                let Some(a) = self.pick(false, false, &[]) else { return false };
                let Some(b) = self.pick(false, false, &[a]) else { return false };
                let p = self.pers2();
                let ((a, sa), (b, sb)) = (self.in_tap(a), self.in_tap(b));
                let k = self.push("map", "map(|x: It| x.0)", vec![(b, None)], "i64", false, false);
                let j = self.push(&kind_of("anti_join", p), &format!("anti_join{p}()"), vec![(a, Some("pos")), (k, Some("neg"))], IT, false, false);
                self.bins.push((j, sa, sb));
            }
            "difference" => {
                let Some(a) = self.pick(false, false, &[]) else { return false };
                let Some(b) = self.pick(false, false, &[a]) else { return false };
                let p = self.pers2();
                let ((a, sa), (b, sb)) = (self.in_tap(a), self.in_tap(b));
                let j = self.push(&kind_of("difference", p), &format!("difference{p}()"), vec![(a, Some("pos")), (b, Some("neg"))], IT, false, false);
                self.bins.push((j, sa, sb));
            }
            "fold" | "fold_no_replay" => {
                let Some(a) = self.pick(false, false, &[]) else { return false };
                let p = pers(self.rng);
                let id = self.rng.below(3);
                self.push(
                    &kind_of(op, p),
                    &format!("{op}{p}(|| (0i64, 0i64), |a: &mut It, x: It| {m}acc_comm({id}, a, x))"),
                    vec![(a, None)],
                    IT,
                    true,
                    true,
                );
            }
            "fold_ord" => {
                let Some(a) = self.pick(true, false, &[]) else { return false };
                let p = pers(self.rng);
                self.push(&kind_of("fold", p), &format!("fold{p}(|| (0i64, 0i64), |a: &mut It, x: It| {m}acc_ord(a, x))"), vec![(a, None)], IT, true, true);
            }
            "reduce" | "reduce_no_replay" => {
                let Some(a) = self.pick(false, false, &[]) else { return false };
                let p = pers(self.rng);
                let id = self.rng.below(3);
                self.push(&kind_of(op, p), &format!("{op}{p}(|a: &mut It, x: It| {m}red_comm({id}, a, x))"), vec![(a, None)], IT, true, true);
            }
            "fold_keyed" => {
                let Some(a) = self.pick(false, false, &[]) else { return false };
                let p = *self.rng.choose(&["::<'tick, i64, i64>", "::<'static, i64, i64>"]);
                let id = self.rng.below(2);
                self.push(
                    &kind_of("fold_keyed", p.split(',').next().unwrap()),
                    &format!("fold_keyed{p}(|| 0i64, |a: &mut i64, v: i64| {m}acc_val({id}, a, v))"),
                    vec![(a, None)],
                    IT,
                    false,
                    false,
                );
            }
            "reduce_keyed" => {
                let Some(a) = self.pick(false, false, &[]) else { return false };
                let p = *self.rng.choose(&["::<'tick, i64, i64>", "::<'static, i64, i64>"]);
                let id = self.rng.below(2);
                self.push(
                    &kind_of("reduce_keyed", p.split(',').next().unwrap()),
                    &format!("reduce_keyed{p}(|a: &mut i64, v: i64| {m}acc_val({id}, a, v))"),
                    vec![(a, None)],
                    IT,
                    false,
                    false,
                );
            }
            "unique" => {
                let Some(a) = self.pick(false, false, &[]) else { return false };
                let p = pers(self.rng);
                let (o, s) = (self.nodes[a].ordered, self.nodes[a].single);
                self.push(&kind_of("unique", p), &format!("unique{p}()"), vec![(a, None)], IT, o, s);
            }
            "sort" => {
                let Some(a) = self.pick(false, false, &[]) else { return false };
                let s = self.nodes[a].single;
                self.push("sort", "sort()", vec![(a, None)], IT, true, s);
            }
            "sort_by_key" => {
                let Some(a) = self.pick(false, false, &[]) else { return false };
                let s = self.nodes[a].single;
                // unstable sort: the order among equal keys is not defined
                self.push("sort_by_key", "sort_by_key(dxs_rt::key0)", vec![(a, None)], IT, false, s);
            }
            "cross_singleton" => {
                let Some(a) = self.pick(false, false, &[]) else { return false };
                let s = match self.pick(false, true, &[a]) {
                    Some(s) => s,
                    None => {
                        let Some(b) = self.pick(false, false, &[a]) else { return false };
                        let id = self.rng.below(3);
                        let p = pers(self.rng);
                        self.push(&kind_of("fold", p), &format!("fold{p}(|| (0i64, 0i64), |a: &mut It, x: It| {m}acc_comm({id}, a, x))"), vec![(b, None)], IT, true, true)
                    }
                };
                let p = match self.force_pers.take() {
                    Some(p) => p,
                    None => *self.rng.choose(PERS1),
                };
                let ((a, sa), (s, sb)) = (self.in_tap(a), self.in_tap(s));
                let c = self.push(&kind_of("cross_singleton", p), &format!("cross_singleton{p}()"), vec![(a, Some("input")), (s, Some("single"))], "(It, It)", false, false);
                self.bins.push((c, sa, sb));
                self.push(
                    "map",
                    &format!("map(|(x, s): (It, It)| ((x.0 + s.0).rem_euclid({m}M), (x.1 + s.1).rem_euclid({m}M)))"),
                    vec![(c, None)],
                    IT,
                    false,
                    false,
                );
            }
            "persist" => {
                let Some(a) = self.pick(false, false, &[]) else { return false };
                self.push("persist'static", "persist::<'static>()", vec![(a, None)], IT, false, false);
            }
            "defer_tick" => {
                let Some(a) = self.pick(false, false, &[]) else { return false };
                self.push("defer_tick", "defer_tick()", vec![(a, None)], IT, false, false);
            }
            "enumerate" => {
                let Some(a) = self.pick(true, false, &[]) else { return false };
                let p = pers(self.rng);
                let e = self.push(&kind_of("enumerate", p), &format!("enumerate{p}()"), vec![(a, None)], "(usize, It)", true, false);
                let s = self.nodes[a].single;
                self.push("map", &format!("map(|(i, x): (usize, It)| ((x.0 + i as i64).rem_euclid({m}M), x.1))"), vec![(e, None)], IT, true, s);
            }
            "zip" => {
                let Some(a) = self.pick(true, false, &[]) else { return false };
                let Some(b) = self.pick(true, false, &[a]) else { return false };
                let p = self.pers2();
                let ((a, sa), (b, sb)) = (self.in_tap(a), self.in_tap(b));
                let z = self.push(&kind_of("zip", p), &format!("zip{p}()"), vec![(a, Some("0")), (b, Some("1"))], "(It, It)", true, false);
                self.bins.push((z, sa, sb));
                self.push("map", &format!("map(|(x, y): (It, It)| ((x.0 + y.1).rem_euclid({m}M), (x.1 + y.0).rem_euclid({m}M)))"), vec![(z, None)], IT, true, false);
            }
            "scan" => {
                let Some(a) = self.pick(true, false, &[]) else { return false };
                let p = pers(self.rng);
                self.push(
                    &kind_of("scan", p),
                    &format!("scan{p}(|| 0i64, |acc: &mut i64, x: It| {{ *acc = (*acc + x.0 + 1).rem_euclid({m}P); Some((*acc, x.1)) }})"),
                    vec![(a, None)],
                    IT,
                    true,
                    false,
                );
            }
            "multiset_delta" => {
                let Some(a) = self.pick(false, false, &[]) else { return false };
                self.push("multiset_delta", "multiset_delta()", vec![(a, None)], IT, false, false);
            }
            "cycle" => {
                // u = union(x, d); … z (a descendant of u) -> decay map -> filter -> defer_tick -> d
                let Some(a) = self.pick(false, false, &[]) else { return false };
                let u = self.push("union", "union()", vec![(a, None)], IT, false, false);
                let mut last = u;
                for _ in 0..1 + self.rng.below(3) {
                    let k = *self.rng.choose(&["map", "filter", "flat_map", "unique", "sort", "fold", "persist", "reduce_keyed", "inspect"]);
                    let before = self.nodes.len();
                    // force the chain to continue from `last`
                    let saved: Vec<bool> = self.nodes.iter().map(|n| n.open).collect();
                    for (i, n) in self.nodes.iter_mut().enumerate() {
                        n.open = i == last;
                    }
                    let ok = self.step(k);
                    for (i, o) in saved.iter().enumerate() {
                        self.nodes[i].open = *o;
                    }
                    if ok {
                        let _ = before;
                        last = self.nodes.len() - 1;
                    }
                }
                let d1 = self.push("map", "map(|x: It| (x.0, x.1 - 1))", vec![(last, None)], IT, false, false);
                let d2 = self.push("filter", "filter(|x: &It| x.1 > 0)", vec![(d1, None)], IT, false, false);
                let d3 = self.push("defer_tick", "defer_tick()", vec![(d2, None)], IT, false, false);
                self.nodes[d1].open = false;
                self.nodes[d2].open = false;
                self.nodes[d3].open = false;
                self.nodes[u].ins.push((d3, None));
            }
            _ => unreachable!("op {op}"),
        }
        true
    }
}

/// Build one base program. Returns the materialised program (explicit `tee()`s and sinks) and its sinks.
fn gen_base(rng: &mut Rng, usage: &mut BTreeMap<String, u64>, gid: usize) -> (Prog, Vec<Sink22>, BTreeMap<String, String>, Vec<BinOp22>) {
    let n_src = 2 + rng.below(2);
    let mut g = Gen { rng, nodes: Vec::new(), usage, next_site: 0, force_pers: None, bins: Vec::new() };
    for i in 0..n_src {
        g.push("source_stream", &format!("source_stream(rx{i})"), vec![], IT, true, false);
    }
    // coverage: every program starts with a binary operator fed inline from the sources; the family and the
    // persistence combination (incl. the mixed 'tick/'static ones) cycle with the group number
    {
        let fam = BIN_FAMILIES[gid % BIN_FAMILIES.len()];
        // the four semantically distinct combinations first (the mixed ones twice per 7 groups of a family)
        let combos = if fam == "cross_singleton" { PERS1 } else { &PERS2[..4] };
        g.force_pers = Some(combos[(gid / BIN_FAMILIES.len()) % combos.len()]);
        if g.step(fam) {
            *g.usage.entry(fam.to_string()).or_insert(0) += 1;
        }
        g.force_pers = None;
    }
    let steps = 3 + g.rng.below(6);
    let mut done = 0;
    let mut tries = 0;
    while done < steps && tries < 40 {
        tries += 1;
        let op = g.choose_op();
        // `multiset_delta` does not compile on the push side (known finding): keep it to a quarter of the groups so
        // that groups in which no variant compiles stay rare
        if op == "multiset_delta" && gid % 4 != 3 {
            continue;
        }
        if g.step(op) {
            *g.usage.entry(op.to_string()).or_insert(0) += 1;
            done += 1;
        }
    }
    // sinks on every unconsumed stream
    for i in 0..g.nodes.len() {
        if g.nodes[i].open && g.fanout(i) == 0 && !g.nodes[i].is_sink {
            let site = g.next_site;
            g.next_site += 1;
            let (o, s) = (g.nodes[i].ordered, g.nodes[i].single);
            let k = g.push("for_each", &format!("for_each(|x: It| rec_t{site}.item({site}, x))"), vec![(i, None)], "()", o, s);
            g.nodes[k].site = Some(site);
            g.nodes[k].is_sink = true;
            g.nodes[k].open = false;
        }
    }
    // materialise: an observation tap (`inspect`) behind every stateful / multi-input operator (the same taps are
    // part of every variant, so they do not affect semantic identity; they let a difference be attributed to the
    // operator whose output differs first), explicit tee() where fan-out > 1
    let mut next_site = g.next_site;
    let bins_l = g.bins.clone();
    let ln = g.nodes;
    let mut prog = Prog::new(n_src);
    let mut idx: Vec<usize> = Vec::new(); // logical -> prog index of the node to read from
    let mut own: Vec<usize> = Vec::new(); // logical -> prog index of the node itself
    let mut obs_at: BTreeMap<usize, (u16, bool)> = BTreeMap::new(); // prog index of an observed operator -> (site, ordered)
    for (i, n) in ln.iter().enumerate() {
        let fo: usize = ln.iter().map(|m| m.ins.iter().filter(|(s, _)| *s == i).count()).sum();
        let me = prog.add(&format!("n{i}"), &n.kind, &n.text, vec![], 0, &n.ty);
        own.push(me);
        let mut out = me;
        if let Some(site) = n.site {
            obs_at.insert(me, (site, n.ordered));
        } else if n.ty == IT && (!PURE.contains(&base_kind(&n.kind).as_str()) || n.ins.iter().any(|(s, _)| ln[*s].ty != IT && ln[*s].ty != "i64")) {
            let site = next_site;
            next_site += 1;
            out = prog.add(&format!("n{i}i"), "tap", &format!("inspect(|x: &It| rec_t{site}.item({site}, *x))"), vec![(me, None)], 0, &n.ty);
            obs_at.insert(me, (site, n.ordered));
        }
        if fo > 1 {
            out = prog.add(&format!("n{i}t"), "tee", "tee()", vec![(out, None)], 0, &n.ty);
        }
        idx.push(out);
    }
    for (i, n) in ln.iter().enumerate() {
        prog.nodes[own[i]].ins = n.ins.iter().map(|(s, p)| (idx[*s], p.map(|x| x.to_string()))).collect();
    }
    let mut kinds = BTreeMap::new();
    for n in &prog.nodes {
        if n.kind != "tap" {
            kinds.insert(n.name.clone(), n.kind.clone());
        }
    }
    // observation points: the observed operator, the unobserved operators between it and the nearest upstream
    // observation points, and those points
    let mut sinks = Vec::new();
    for (&x, &(site, ordered)) in &obs_at {
        let mut between: Vec<(String, String)> = vec![(prog.nodes[x].name.clone(), prog.nodes[x].kind.clone())];
        let mut preds: Vec<u16> = Vec::new();
        let mut seen: BTreeSet<usize> = BTreeSet::new();
        let mut frontier: Vec<usize> = prog.nodes[x].ins.iter().map(|(s, _)| *s).collect();
        while let Some(y) = frontier.pop() {
            if !seen.insert(y) {
                continue;
            }
            if let Some(&(ps, _)) = obs_at.get(&y) {
                preds.push(ps);
                continue;
            }
            if prog.nodes[y].kind != "tap" {
                between.push((prog.nodes[y].name.clone(), prog.nodes[y].kind.clone()));
            }
            for (s, _) in &prog.nodes[y].ins {
                frontier.push(*s);
            }
        }
        preds.sort();
        preds.dedup();
        // a tap behind the normalising map of a compound operator (join, zip, enumerate, cross_singleton) observes
        // that operator: list it first
        if prog.nodes[x].kind != "map" {
            // only a normalising map stands for the compound operator in front of it
        } else if let Some(pos) = between.iter().position(|(n, _)| prog.nodes[x].ins.iter().any(|(s, _)| prog.nodes[*s].name == *n && prog.nodes[*s].ty != IT)) {
            let raw = between.remove(pos);
            between.insert(0, raw);
        }
        let is_sink = prog.nodes[x].kind == "for_each";
        sinks.push(Sink22 { site, name: prog.nodes[x].name.clone(), ordered, between, preds, is_sink });
    }
    sinks.sort_by_key(|s| s.site);
    let bins = bins_l.iter().map(|&(i, sa, sb)| BinOp22 { name: prog.nodes[own[i]].name.clone(), kind: prog.nodes[own[i]].kind.clone(), site_a: sa, site_b: sb }).collect();
    (prog, sinks, kinds, bins)
}

// ---------------------------------------------------------------------------------------------
// shape variants

const INSERTS: &[&str] = &[
    "identity", "map_id", "tee_null", "tee_drop", "union1", "tee1", "union_empty", "handoff", "handoff_identity", "identity_handoff",
    "tee_null", "handoff",
];

/// Apply `kind` on the edge into input slot `slot` of node `dst`. New nodes are `base = false`.
fn apply_insert(p: &mut Prog, dst: usize, slot: usize, kind: &str, tag: usize) {
    let (src, port) = p.nodes[dst].ins[slot].clone();
    let ty = p.nodes[src].ty.clone();
    let lp = p.nodes[dst].lp;
    let add = |p: &mut Prog, name: String, k: &str, text: String, ins: Vec<(usize, Option<&str>)>, ty: &str| -> usize {
        let i = p.add(&name, k, &text, ins, lp, ty);
        p.nodes[i].base = false;
        i
    };
    let new_src = match kind {
        "identity" => add(p, format!("v{tag}"), "identity", format!("identity::<{ty}>()"), vec![(src, None)], &ty),
        "map_id" => add(p, format!("v{tag}"), "map", format!("map(|x: {ty}| x)"), vec![(src, None)], &ty),
        "tee_null" => {
            let t = add(p, format!("v{tag}"), "tee", "tee()".into(), vec![(src, None)], &ty);
            add(p, format!("v{tag}z"), "null", format!("null::<{ty}>()"), vec![(t, None)], "()");
            t
        }
        "tee_drop" => {
            let t = add(p, format!("v{tag}"), "tee", "tee()".into(), vec![(src, None)], &ty);
            add(p, format!("v{tag}z"), "for_each", format!("for_each(|_x: {ty}| ())"), vec![(t, None)], "()");
            t
        }
        "union1" => add(p, format!("v{tag}"), "union", "union()".into(), vec![(src, None)], &ty),
        "tee1" => add(p, format!("v{tag}"), "tee", "tee()".into(), vec![(src, None)], &ty),
        "union_empty" => {
            let e = add(p, format!("v{tag}e"), "source_iter", format!("source_iter(::std::vec::Vec::<{ty}>::new())"), vec![], &ty);
            let u = add(p, format!("v{tag}"), "union", "union()".into(), vec![(src, None), (e, None)], &ty);
            u
        }
        "handoff" => add(p, format!("v{tag}"), "handoff", "handoff()".into(), vec![(src, None)], &ty),
        "handoff_identity" => {
            let h = add(p, format!("v{tag}h"), "handoff", "handoff()".into(), vec![(src, None)], &ty);
            add(p, format!("v{tag}"), "identity", format!("identity::<{ty}>()"), vec![(h, None)], &ty)
        }
        "identity_handoff" => {
            let i = add(p, format!("v{tag}i"), "identity", format!("identity::<{ty}>()"), vec![(src, None)], &ty);
            add(p, format!("v{tag}"), "handoff", "handoff()".into(), vec![(i, None)], &ty)
        }
        _ => unreachable!(),
    };
    p.nodes[dst].ins[slot] = (new_src, port);
}

fn make_variant(base: &Prog, rng: &mut Rng) -> (Prog, Vec<String>, Option<u64>) {
    let mut p = base.clone();
    let edges: Vec<(usize, usize)> = (0..base.nodes.len()).flat_map(|j| (0..base.nodes[j].ins.len()).map(move |k| (j, k))).collect();
    let mut inserts = Vec::new();
    let mode = rng.below(8);
    let n_ins = match mode {
        0 => 0, // declaration order only
        1 => 1,
        _ => 1 + rng.below(4.min(edges.len().max(1))),
    };
    let mut chosen: BTreeSet<(usize, usize)> = BTreeSet::new();
    for t in 0..n_ins {
        if edges.is_empty() {
            break;
        }
        let e = *rng.choose(&edges);
        if !chosen.insert(e) {
            continue;
        }
        let kind = *rng.choose(INSERTS);
        let src_name = base.nodes[base.nodes[e.0].ins[e.1].0].name.clone();
        inserts.push(format!("{kind}@{}->{}", src_name, base.nodes[e.0].name));
        apply_insert(&mut p, e.0, e.1, kind, t);
    }
    let order = if mode == 0 || rng.chance(3, 4) { Some(rng.next_u64()) } else { None };
    (p, inserts, order)
}

/// Generate group `gid`: a base program and 3–6 shape variants, chosen (among ~14 candidates) to maximise the
/// number of operators whose pull/push colour flips and to include subgraph-count changes.
pub fn gen_group(gid: usize, rng: &mut Rng, usage: &mut BTreeMap<String, u64>, rejects: &mut Vec<String>, fns: &mut BTreeMap<String, String>) -> Group22 {
    loop {
        let (base, sinks, kinds, bins) = gen_base(rng, usage, gid);
        let text0 = base.emit(None);
        let a0 = analyze(&text0);
        if !a0.ok {
            // the generator produced something the front end rejects outright: a harness defect, never a finding
            rejects.push(format!("C22 base rejected: {} :: {}", a0.err, text0.replace('\n', " ")));
            if rejects.len() > 200 {
                panic!("too many rejected base programs: {:?}", &rejects[..3]);
            }
            continue;
        }
        let mut variants = vec![Variant22 {
            vid: 0,
            prog_id: format!("c22_g{gid}_v0"),
            inserts: vec![],
            order_seed: None,
            text: text0.clone(),
            analysis: a0.clone(),
            flips: vec![],
            sg_changed: false,
            rustc_error: None,
            one_sided: None,
        }];
        let mut progs = vec![base.clone()];
        let k = 3 + rng.below(4);
        let mut cands: Vec<(Prog, Variant22)> = Vec::new();
        let mut seen_texts: BTreeSet<String> = BTreeSet::new();
        seen_texts.insert(text0);
        let eval = |p: Prog, inserts: Vec<String>, order: Option<u64>, one_sided: Option<String>, seen_texts: &mut BTreeSet<String>| -> Option<(Prog, Variant22)> {
            let text = p.emit(order);
            if !seen_texts.insert(text.clone()) {
                return None;
            }
            let a = analyze(&text);
            let mut flips = Vec::new();
            if a.ok {
                for (name, kind) in &kinds {
                    if let (Some(c0), Some(c1)) = (a0.colors.get(name), a.colors.get(name)) {
                        if c0 != c1 {
                            flips.push((name.clone(), kind.clone(), c0.clone(), c1.clone()));
                        }
                    }
                }
            }
            let sg_changed = a.ok && a.n_subgraphs != a0.n_subgraphs;
            Some((p, Variant22 { vid: 0, prog_id: String::new(), inserts, order_seed: order, text, analysis: a, flips, sg_changed, rustc_error: None, one_sided }))
        };
        // one-sided variants: a handoff / two-output tee on exactly ONE input of a binary operator, the other input
        // as in the base program. Both sides of the forced operator are always taken; the other operators' go into
        // the candidate pool.
        let mut forced: Vec<(Prog, Variant22)> = Vec::new();
        for (bi, b) in bins.iter().enumerate() {
            let Some(j) = base.nodes.iter().position(|n| n.name == b.name) else { continue };
            // slot sets: input 0 only, input 1 only, both inputs (an input that is not pulled is only *delayed* when it
            // hangs inline on a source but *lost* when it sits in a handoff, so "both" matters as well)
            let n_in = base.nodes[j].ins.len().min(2);
            let mut slot_sets: Vec<Vec<usize>> = (0..n_in).map(|s| vec![s]).collect();
            if n_in == 2 {
                slot_sets.push(vec![0, 1]);
            }
            for slots in slot_sets {
                let mut p = base.clone();
                let mut ins = Vec::new();
                for (t, &slot) in slots.iter().enumerate() {
                    let kind = *rng.choose(&["handoff", "tee_null", "handoff", "handoff_identity", "tee_drop"]);
                    // the edge into the operator (for anti_join's neg side: into the key-extracting map in front of it)
                    let (mut dst, mut sl) = (j, slot);
                    let src = base.nodes[j].ins[slot].0;
                    if base.nodes[src].ty != IT && base.nodes[src].ins.len() == 1 {
                        dst = src;
                        sl = 0;
                    }
                    let src_name = base.nodes[base.nodes[dst].ins[sl].0].name.clone();
                    apply_insert(&mut p, dst, sl, kind, t);
                    ins.push(format!("{kind}@{}->{}", src_name, base.nodes[dst].name));
                }
                let order = if rng.chance(1, 2) { Some(rng.next_u64()) } else { None };
                let tag = if slots.len() == 2 { format!("{}+both", base_kind(&b.kind)) } else { base_kind(&b.kind) };
                if let Some(c) = eval(p, ins, order, Some(tag), &mut seen_texts) {
                    if bi == 0 {
                        forced.push(c);
                    } else {
                        cands.push(c);
                    }
                }
            }
        }
        for _ in 0..12 {
            let (p, inserts, order) = make_variant(&base, rng);
            if let Some(c) = eval(p, inserts, order, None, &mut seen_texts) {
                cands.push(c);
            }
        }
        let k = k.max(forced.len() + 1).min(6);
        // greedy choice: most new flipped operators first; front-end rejections are always kept (observation)
        let mut covered: BTreeSet<String> = BTreeSet::new();
        let mut picked: Vec<(Prog, Variant22)> = forced;
        for c in &picked {
            for f in &c.1.flips {
                covered.insert(f.0.clone());
            }
        }
        while picked.len() < k && !cands.is_empty() {
            let score = |v: &Variant22| -> usize {
                if !v.analysis.ok {
                    return 1000;
                }
                let newf = v.flips.iter().filter(|f| !covered.contains(&f.0)).count();
                newf * 4 + v.flips.len() + usize::from(v.sg_changed) * 2
            };
            let (bi, bs) = cands.iter().enumerate().map(|(i, c)| (i, score(&c.1))).max_by_key(|x| x.1).unwrap();
            let take = if bs == 0 || (picked.len() >= 2 && rng.chance(1, 3)) { rng.below(cands.len()) } else { bi };
            let c = cands.remove(take);
            for f in &c.1.flips {
                covered.insert(f.0.clone());
            }
            picked.push(c);
        }
        for (i, (p, mut v)) in picked.into_iter().enumerate() {
            v.vid = i + 1;
            v.prog_id = format!("c22_g{gid}_v{}", i + 1);
            variants.push(v);
            progs.push(p);
        }
        for (v, p) in variants.iter().zip(progs.iter()) {
            fns.insert(v.prog_id.clone(), p.emit_fn(&v.prog_id, &v.text));
        }
        return Group22 { gid, n_src: base.n_src, sinks, kinds, variants, bins };
    }
}
