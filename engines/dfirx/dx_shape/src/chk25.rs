//! C25 oracle: every read through a reference sees the value after ALL same-tick producers of that state ran
//! (computed in plain Rust from the tick's inputs), all items of a lower access group are processed before any
//! item of a higher group on the same state, readers in one group see one consistent value.

use std::collections::BTreeMap;

use vcommon::{Args, Reporter, Rng, hash_of, json};

use crate::emit::Manifest;
use crate::g25::{P25, StateKind, apply_mut, chain_out, settled};
use crate::rt::{Ev, EvKind, History, Rec, Registry, SIZE_PANIC, Val};

fn history_for(seed: u64, idx: usize, i: usize, n_src: usize) -> History {
    let mut r = Rng::new(seed).fork(0xC25_0000 + idx as u64).fork(i as u64);
    History::random(&mut r, n_src, 5, 4, 1)
}

fn kind_name(k: &StateKind) -> &'static str {
    match k {
        StateKind::Singleton(true, _) => "singleton-fold-static",
        StateKind::Singleton(false, _) => "singleton-fold-tick",
        StateKind::Optional(true, _) => "optional-reduce-static",
        StateKind::Optional(false, _) => "optional-reduce-tick",
        StateKind::Handoff => "handoff",
    }
}

fn panic_class(m: &str) -> &'static str {
    if m.contains("Option::unwrap()") || m.contains("called `Option::unwrap") {
        "unwrap-on-empty-singleton"
    } else if m.contains("received more than one item") {
        "slot-received-more-than-one-item"
    } else if m.contains("already borrowed") || m.contains("BorrowMut") {
        "refcell-borrow"
    } else {
        "other"
    }
}

fn case_json(m: &Manifest, p: &P25, h: &History, extra: vcommon::Value) -> vcommon::Value {
    json!({"engine": "dx_shape", "prop": "C25", "gen_seed": m.seed, "gen_tier": m.tier, "program": p.prog_id, "history": h, "dfir": p.text, "detail": extra})
}

/// Judge one run. Returns number of violations reported.
pub fn judge(rep: &mut Reporter, m: &Manifest, reg: &Registry, p: &P25, h: &History) -> u32 {
    let Some(&f) = reg.progs.get(&p.prog_id) else {
        rep.count("missing_program_fn");
        return 0;
    };
    let rec = Rec::new();
    let res = vcommon::catch(|| f(h, &rec));
    let evs = rec.take_events();
    let ticks_done = rec.0.ticks_done.get() as usize;
    let mut nviol = 0;
    if let Err(msg) = &res {
        if msg.contains(SIZE_PANIC) {
            rep.count("history_skipped_trace_too_big");
            return 0;
        }
        // a read that panics is an observation: the property promises a settled value there
        rep.eval();
        rep.violation(
            &format!("C25|run|panic|{}", panic_class(msg)),
            &format!("{} panicked in tick {}: {}", p.prog_id, ticks_done, msg),
            case_json(m, p, h, json!({"panic": msg, "tick": ticks_done})),
        );
        nviol += 1;
    }
    let want = settled(p, h);
    // group the read events per tick, keeping log order
    let mut per_tick: Vec<Vec<&Ev>> = vec![Vec::new(); h.n_ticks()];
    for e in &evs {
        if e.kind == EvKind::Read && (e.tick as usize) < per_tick.len() {
            per_tick[e.tick as usize].push(e);
        }
    }
    for t in 0..ticks_done.min(h.n_ticks()) {
        // reader item streams must match the model, otherwise the values cannot be attributed
        let mut items_ok = true;
        for r in &p.readers {
            let mut got: Vec<_> = per_tick[t].iter().filter(|e| e.site == r.cid).map(|e| e.x).collect();
            let mut exp = chain_out(&r.chain, h, t);
            got.sort();
            exp.sort();
            if got != exp {
                items_ok = false;
            }
        }
        if !items_ok {
            rep.count("reader_item_stream_differs_from_model");
            continue;
        }
        for (j, st) in p.states.iter().enumerate() {
            // entries on state j in log order: (closure, ref slot, group, mutf, item, seen)
            let mut entries = Vec::new();
            for e in &per_tick[t] {
                let r = &p.readers[e.site as usize];
                for (slot, u) in r.refs.iter().enumerate() {
                    if u.state == j {
                        entries.push((e.site, u.group, u.mutf, e.x, e.vals[slot].clone()));
                    }
                }
            }
            if entries.is_empty() {
                continue;
            }
            let n_producer_items: usize = st.producers.iter().map(|c| chain_out(c, h, t).len()).sum();
            let groups: std::collections::BTreeSet<Option<u32>> = entries.iter().map(|e| e.1).collect();
            if n_producer_items >= 1 && groups.len() >= 2 {
                rep.nontrivial(hash_of(&(&p.prog_id, h, t, j)));
                rep.sample(|| json!({"program": p.prog_id, "tick": t, "state": st.name, "kind": kind_name(&st.kind), "groups": groups.iter().map(|g| g.map(|x| x as i64).unwrap_or(-1)).collect::<Vec<_>>(), "producer_items": n_producer_items, "reads": entries.len(), "subgraphs": p.n_subgraphs}));
            }
            rep.count(&format!("state.{}", kind_name(&st.kind)));
            // (1) order: all items of a lower access group before any item of a higher group
            rep.eval();
            let mut order_ok = true;
            for w in entries.windows(2) {
                if w[0].1 > w[1].1 {
                    order_ok = false;
                    rep.violation(
                        &format!("C25|order|higher-group-ran-before-lower|{}", kind_name(&st.kind)),
                        &format!(
                            "{} tick {t}: closure {} (group {:?}) processed item {:?} on `{}` before closure {} (group {:?}) processed {:?}",
                            p.prog_id, w[0].0, w[0].1, w[0].3, st.name, w[1].0, w[1].1, w[1].3
                        ),
                        case_json(m, p, h, json!({"tick": t, "state": st.name, "first": {"closure": w[0].0, "group": w[0].1, "item": w[0].3}, "then": {"closure": w[1].0, "group": w[1].1, "item": w[1].3}})),
                    );
                    nviol += 1;
                    break;
                }
            }
            // (2) values: settled value after all producers, then the lower groups' mutations
            let mut cur: Val = want[t][j].clone();
            let mut by_group: BTreeMap<Option<u32>, Vec<&(u16, Option<u32>, Option<u8>, crate::rt::It, Val)>> = BTreeMap::new();
            for e in &entries {
                by_group.entry(e.1).or_default().push(e);
            }
            'groups: for (g, es) in &by_group {
                for e in es {
                    rep.eval();
                    if e.4 != cur {
                        let class = if e.2.is_some() { "mut" } else { "shared" };
                        let consistent = es.iter().all(|x| x.4 == es[0].4);
                        let what = if !consistent && e.2.is_none() { "inconsistent-within-group" } else { "unsettled-or-stale-value" };
                        rep.violation(
                            &format!("C25|read|{what}|{}|{class}", kind_name(&st.kind)),
                            &format!(
                                "{} tick {t}: closure {} (group {:?}, {class}) processing {:?} saw `{}` = {:?}, expected {:?} (value after all same-tick producers and all lower groups){}",
                                p.prog_id, e.0, g, e.3, st.name, e.4, cur, if order_ok { "" } else { " [group order also violated]" }
                            ),
                            case_json(m, p, h, json!({"tick": t, "state": st.name, "closure": e.0, "group": g, "item": e.3, "seen": e.4, "expected": cur})),
                        );
                        nviol += 1;
                        break 'groups;
                    }
                    if let Some(f) = e.2 {
                        apply_mut(&mut cur, f, e.3);
                    }
                }
            }
        }
    }
    nviol
}

/// The front end accepted the program but rustc rejects the generated code. If the error is about a generated
/// handoff / singleton buffer that is not in scope, a closure holding a reference was scheduled before the state
/// it refers to is produced (the buffer is declared by the producing subgraph): the compile-time face of reading
/// unsettled state. Anything else is a defect of the generator's own user code.
fn compile_failure(rep: &mut Reporter, m: &Manifest, p: &P25, msg: &str) {
    let generated = ["cannot find value `hoff_", "cannot find value `singleton_"].iter().any(|n| msg.contains(n));
    if generated {
        rep.eval();
        rep.violation(
            "C25|compile|reference-scheduled-before-its-state-is-produced",
            &format!("{}: accepted by the front end, but the generated code uses a state buffer before the producing subgraph declares it: {}", p.prog_id, &msg[..msg.len().min(300)]),
            json!({"engine": "dx_shape", "prop": "C25", "gen_seed": m.seed, "gen_tier": m.tier, "program": p.prog_id, "dfir": p.text, "compile_only": true, "error": msg}),
        );
    } else {
        rep.count("program_failed_rustc");
    }
}

pub fn run(args: &Args, m: &Manifest, reg: &Registry) {
    let mut rep = Reporter::new("C25", args.seed);
    if let Some(case) = args.replay_case() {
        let id = case["program"].as_str().unwrap_or("");
        if case.get("compile_only").and_then(|x| x.as_bool()).unwrap_or(false) {
            if let (Some(p), Some(msg)) = (m.c25.iter().find(|p| p.prog_id == id), m.rustc_failed.get(id)) {
                compile_failure(&mut rep, m, p, msg);
            }
            rep.finish("replay", false);
            return;
        }
        if let (Some(p), Ok(h)) = (m.c25.iter().find(|p| p.prog_id == id), vcommon::serde_json::from_value::<History>(case["history"].clone())) {
            judge(&mut rep, m, reg, p, &h);
        } else {
            eprintln!("replay: program {id} not in manifest or bad history");
        }
        rep.finish("replay", false);
        return;
    }
    let n_hist = args.budget(200, 2000, 3);
    for (idx, p) in m.c25.iter().enumerate() {
        if let Some(msg) = m.rustc_failed.get(&p.prog_id) {
            compile_failure(&mut rep, m, p, msg);
            continue;
        }
        rep.count("programs");
        for r in &p.readers {
            rep.count(&format!("closure_op.{}", r.op));
            for u in &r.refs {
                let form = match (u.group.is_some(), u.mutf.is_some()) {
                    (false, false) => "#x",
                    (false, true) => "#mut x",
                    (true, false) => "#{N} x",
                    (true, true) => "#{N} mut x",
                };
                rep.count(&format!("ref_form.{form}"));
            }
        }
        let mut budget_viol = 0;
        for i in 0..n_hist {
            let h = history_for(m.seed, idx, i, p.n_src);
            budget_viol += judge(&mut rep, m, reg, p, &h);
            if budget_viol >= 3 {
                break;
            }
        }
    }
    if !matches!(args.tier, vcommon::Tier::Miri) {
        for form in ["#x", "#mut x", "#{N} x", "#{N} mut x"] {
            let c = rep.counter(&format!("ref_form.{form}"));
            rep.require(c >= 1, &format!("reference form `{form}` never generated"));
        }
        for k in ["singleton-fold-static", "singleton-fold-tick", "optional-reduce-static", "optional-reduce-tick", "handoff"] {
            let c = rep.counter(&format!("state.{k}"));
            rep.require(c >= 1, &format!("state kind `{k}` never read"));
        }
        let c = rep.counter("reader_item_stream_differs_from_model");
        rep.require(c == 0, "a reader's item stream differed from the model (values cannot be attributed): harness model or item loss");
        let c = rep.counter("program_failed_rustc") + rep.counter("missing_program_fn");
        rep.require(c == 0, "a generated C25 program did not compile (generator defect)");
        rep.require(m.gen_rejects.iter().filter(|r| r.starts_with("C25")).count() <= m.c25.len() / 2 + 2, "too many C25 programs rejected by the front end (generator defect)");
    }
    rep.extra("generator_rejects", json!(m.gen_rejects.iter().filter(|r| r.starts_with("C25")).count()));
    rep.finish(
        "Seeded programs with 1-3 shared states (fold -> singleton(), reduce -> optional(), plain handoff(); 'tick and 'static; 1-3 producers each, \
         through map/filter/identity/handoff/tee hops and optional defer_tick) and 2-5 closures (map/filter/inspect/for_each/flat_map/filter_map) holding \
         #x / #mut x / #{N} x / #{N} mut x on 1-2 states, statements in shuffled declaration order; each driven with 200/2000 random histories. Every closure \
         logs (closure, item, value seen); the expected value is computed in plain Rust from the tick's inputs (settled producer value, then lower groups' \
         mutations in group order). Non-trivial = (program, history, tick, state) with >= 1 producer item and reads from >= 2 different access groups.",
        false,
    );
}
