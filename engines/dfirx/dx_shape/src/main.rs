//! Generator CLI.
//!
//!   dx_shape --prop NONE                                   (build warm-up)
//!   dx_shape gen --seed S --tier T --out DIR --repo /repo --self /verif/engines/dfirx/dx_shape
//!                [--reuse] [--isolate pkg,pkg] [--failed FILE.json] [--dump] [--only C22|C25|C26]
//!
//! `gen` writes the generated cargo workspace (see `emit.rs`). `--reuse` loads DIR/gen.json instead of
//! regenerating (so that all passes of one check see exactly the same programs); `--isolate` emits the programs
//! of the named part crates as one crate each (attribution of a rustc failure); `--failed` marks programs that
//! rustc rejected (they are left out and recorded in the manifest as compile outcomes).

use std::collections::BTreeMap;
use std::path::PathBuf;

use dx_shape::emit::{Manifest, Paths, write_workspace};

fn main() {
    let argv: Vec<String> = std::env::args().collect();
    if argv.get(1).map(|s| s.as_str()) != Some("gen") {
        let args = vcommon::Args::parse();
        if args.prop == "NONE" {
            return;
        }
        eprintln!("dx_shape: use `gen …`; the checks themselves run in the generated binary (see vlib/drv_dxshape.py)");
        std::process::exit(3);
    }
    let mut seed = 1u64;
    let mut tier = "quick".to_string();
    let mut out = PathBuf::from("/tmp/dxshape-gen");
    let mut repo = "/repo".to_string();
    let mut me = "/verif/engines/dfirx/dx_shape".to_string();
    let mut reuse = false;
    let mut isolate: Vec<String> = Vec::new();
    let mut failed: Option<String> = None;
    let mut dump = false;
    let mut only: Option<String> = None;
    let mut it = argv.iter().skip(2);
    while let Some(a) = it.next() {
        match a.as_str() {
            "--seed" => seed = it.next().unwrap().parse().unwrap(),
            "--tier" => tier = it.next().unwrap().clone(),
            "--out" => out = PathBuf::from(it.next().unwrap()),
            "--repo" => repo = it.next().unwrap().clone(),
            "--self" => me = it.next().unwrap().clone(),
            "--reuse" => reuse = true,
            "--isolate" => isolate = it.next().unwrap().split(',').filter(|s| !s.is_empty()).map(|s| s.to_string()).collect(),
            "--failed" => failed = Some(it.next().unwrap().clone()),
            "--dump" => dump = true,
            "--only" => only = Some(it.next().unwrap().clone()),
            x => {
                eprintln!("unknown argument {x}");
                std::process::exit(3);
            }
        }
    }
    std::fs::create_dir_all(&out).expect("mkdir out");
    let gen_json = out.join("gen.json");
    let mut m: Manifest = if reuse && gen_json.exists() {
        serde_json::from_str(&std::fs::read_to_string(&gen_json).expect("read gen.json")).expect("parse gen.json")
    } else {
        dx_shape::driver::generate(seed, &tier, only.as_deref())
    };
    if let Some(f) = failed {
        let map: BTreeMap<String, String> = serde_json::from_str(&std::fs::read_to_string(&f).expect("read failed file")).expect("parse failed file");
        for (k, v) in map {
            m.rustc_failed.insert(k, v);
        }
    }
    let txt = serde_json::to_string(&m).unwrap();
    if std::fs::read_to_string(&gen_json).map(|o| o != txt).unwrap_or(true) {
        std::fs::write(&gen_json, &txt).expect("write gen.json");
    }
    if dump {
        for (id, f) in &m.fns {
            println!("// ---- {id}\n{f}");
        }
        for r in &m.gen_rejects {
            eprintln!("REJECT {r}");
        }
    }
    let tag = format!("s{seed}{}{}", &tier[..1], only.as_deref().map(|o| o.to_lowercase()).unwrap_or_default());
    let paths = Paths { repo, dx_shape: me };
    let members = write_workspace(&out, &m, &tag, dx_shape::driver::n_parts(&tier), &paths, &isolate);
    println!(
        "{}",
        serde_json::json!({"t": "gen", "tag": tag, "members": members, "programs": m.compile_ids().len(), "c22_groups": m.c22.len(),
            "c25": m.c25.len(), "c26": m.c26.len(), "generator_rejects": m.gen_rejects.len(), "rustc_failed": m.rustc_failed.len(),
            "frontend_rejected_variants": m.c22.iter().map(|g| g.variants.iter().filter(|v| !v.analysis.ok).count()).sum::<usize>()})
    );
}
