//! C22 oracle: all shape variants of a program compile or none does, and those that compile produce identical
//! per-tick traces (sequences where the order is documented, multisets otherwise) on every history.

use std::collections::BTreeMap;

use vcommon::{Args, Reporter, Rng, hash_of, json};

use crate::emit::Manifest;
use crate::g22::{Group22, Variant22, base_kind};
use crate::rt::{Ev, History, It, Rec, Registry, SIZE_PANIC};

pub type Trace = BTreeMap<(u16, u32), Vec<It>>;

pub enum RunRes {
    Ok(Trace),
    Panic(String, Trace),
    TooBig,
}

fn to_trace(evs: Vec<Ev>) -> Trace {
    let mut t: Trace = BTreeMap::new();
    for e in evs {
        t.entry((e.site, e.tick)).or_default().push(e.x);
    }
    t
}

pub fn run_prog(reg: &Registry, id: &str, h: &History) -> Option<RunRes> {
    let f = *reg.progs.get(id)?;
    let rec = Rec::new();
    let r = vcommon::catch(|| f(h, &rec));
    let evs = rec.take_events();
    Some(match r {
        Ok(()) => RunRes::Ok(to_trace(evs)),
        Err(m) if m.contains(SIZE_PANIC) => RunRes::TooBig,
        Err(m) => RunRes::Panic(m, to_trace(evs)),
    })
}

/// base operators whose colour differs between two variants
fn flips_between(g: &Group22, a: &Variant22, b: &Variant22) -> Vec<(String, String)> {
    let mut v = Vec::new();
    for (name, kind) in &g.kinds {
        if let (Some(x), Some(y)) = (a.analysis.colors.get(name), b.analysis.colors.get(name)) {
            if x != y {
                v.push((name.clone(), kind.clone()));
            }
        }
    }
    v
}

fn same_items(ordered: bool, x: &[It], y: &[It]) -> bool {
    if ordered {
        x == y
    } else {
        let (mut xs, mut ys) = (x.to_vec(), y.to_vec());
        xs.sort();
        ys.sort();
        xs == ys
    }
}

/// Shape of a difference between the reference items `x` and the variant's items `y`.
fn diff_shape(x: &[It], y: &[It]) -> &'static str {
    let (mut xs, mut ys) = (x.to_vec(), y.to_vec());
    xs.sort();
    ys.sort();
    if xs == ys {
        return "order";
    }
    let sub = |a: &[It], b: &[It]| -> bool {
        // a is a sub-multiset of b (both sorted)
        let mut j = 0;
        for v in a {
            while j < b.len() && b[j] < *v {
                j += 1;
            }
            if j >= b.len() || b[j] != *v {
                return false;
            }
            j += 1;
        }
        true
    };
    if sub(&ys, &xs) {
        "items-missing"
    } else if sub(&xs, &ys) {
        "items-extra"
    } else {
        "items-differ"
    }
}

pub struct Diff {
    pub site: u16,
    pub tick: u32,
    pub ref_items: Vec<It>,
    pub var_items: Vec<It>,
    /// kind of the operator the difference is attributed to
    pub culprit: String,
    pub culprit_name: String,
}

/// First difference between two traces (order honoured only where it is documented), attributed to the operator
/// whose output differs first: among the observation points that differ in the earliest differing tick, one
/// whose upstream observation points all agree in that tick.
fn first_diff(g: &Group22, flips: &[(String, String)], a: &Trace, b: &Trace) -> Option<Diff> {
    let mut keys: Vec<(u16, u32)> = a.keys().chain(b.keys()).copied().collect();
    keys.sort();
    keys.dedup();
    let empty = Vec::new();
    let mut differing: Vec<(u32, u16)> = Vec::new();
    for k in keys {
        let x = a.get(&k).unwrap_or(&empty);
        let y = b.get(&k).unwrap_or(&empty);
        let ordered = g.sinks.iter().find(|s| s.site == k.0).map(|s| s.ordered).unwrap_or(false);
        if !same_items(ordered, x, y) {
            differing.push((k.1, k.0));
        }
    }
    differing.sort();
    // a violation needs a difference at a real sink
    let is_sink = |s: u16| g.sinks.iter().find(|k| k.site == s).map(|k| k.is_sink).unwrap_or(false);
    let &(_, first_sink) = differing.iter().find(|d| is_sink(d.1))?;
    // attribution: among the sink and its upstream observation points
    let mut anc: Vec<u16> = vec![first_sink];
    let mut i = 0;
    while i < anc.len() {
        if let Some(k) = g.sinks.iter().find(|k| k.site == anc[i]) {
            for p in &k.preds {
                if !anc.contains(p) {
                    anc.push(*p);
                }
            }
        }
        i += 1;
    }
    // the taps on the inputs of binary operators only serve the coverage guard: an input that is not pulled in a
    // tick (lazily short-circuited, or dropped by a defect downstream) shows there first, but the operator to name
    // is the one that consumed it
    let is_intap = |s: u16| g.sinks.iter().find(|k| k.site == s).map(|k| k.between.first().map(|b| b.1 == "intap").unwrap_or(false)).unwrap_or(false);
    let differing: Vec<(u32, u16)> = differing.into_iter().filter(|d| anc.contains(&d.1) && (!is_intap(d.1) || d.1 == first_sink)).collect();
    let &(tick, _) = differing.first()?;
    let now: Vec<u16> = differing.iter().filter(|d| d.0 == tick).map(|d| d.1).collect();
    let root = now
        .iter()
        .copied()
        .find(|s| g.sinks.iter().find(|k| k.site == *s).map(|k| k.preds.iter().all(|p| !now.contains(p))).unwrap_or(true))
        .unwrap_or(now[0]);
    let sink = g.sinks.iter().find(|k| k.site == root);
    let (mut culprit, mut culprit_name) = ("unknown".to_string(), String::new());
    if let Some(k) = sink {
        let flipped = |n: &str| flips.iter().any(|f| f.0 == n);
        if let Some((n, kind)) = k.between.iter().find(|(n, _)| flipped(n)) {
            culprit = kind.clone();
            culprit_name = n.clone();
        } else if let Some((n, kind)) = k.between.first() {
            culprit = format!("{}:same-colour", kind);
            culprit_name = n.clone();
        }
    }
    Some(Diff {
        site: root,
        tick,
        ref_items: a.get(&(root, tick)).cloned().unwrap_or_default(),
        var_items: b.get(&(root, tick)).cloned().unwrap_or_default(),
        culprit,
        culprit_name,
    })
}

fn err_class(e: &str) -> String {
    // a short, stable class of a compiler message
    let e = e.to_lowercase();
    for (needle, class) in [
        ("adjacent handoff", "adjacent-handoffs"),
        ("cyclical dataflow", "cycle"),
        ("degenerate subgraph", "degenerate-subgraph"),
        ("panicked", "front-end-panic"),
        ("mismatched types", "mismatched-types"),
        ("type annotations needed", "type-annotations-needed"),
        ("borrow", "borrow-check"),
        ("cannot find", "unresolved-name"),
        ("trait bound", "trait-bound"),
    ] {
        if e.contains(needle) {
            return class.to_string();
        }
    }
    "other".to_string()
}

/// The operator a rustc error points at: the rendered message quotes the offending statement `name = … -> op(…)`.
fn err_operator(g: &Group22, v: &Variant22, msg: &str) -> String {
    for line in msg.lines() {
        let Some(bar) = line.find('|') else { continue };
        let code = line[bar + 1..].trim();
        let Some(eq) = code.find(" = ") else { continue };
        let name = code[..eq].trim();
        if name.is_empty() || !name.chars().all(|c| c.is_ascii_alphanumeric() || c == '_') {
            continue;
        }
        if let Some(k) = g.kinds.get(name) {
            return base_kind(k);
        }
        // an inserted node: take the operator name from the variant's text
        for st in v.text.lines() {
            let st = st.trim();
            if let Some(rest) = st.strip_prefix(&format!("{name} = ")) {
                let op = rest.rsplit("-> ").next().unwrap_or(rest);
                let op: String = op.chars().take_while(|c| c.is_ascii_alphanumeric() || *c == '_').collect();
                return format!("inserted-{op}");
            }
        }
    }
    "unknown-operator".to_string()
}

/// Does the statement a rustc error quotes contain a closure written by the generator? (`name = src -> op(|x| …)`)
fn err_statement_has_user_closure(msg: &str) -> bool {
    for line in msg.lines() {
        let Some(bar) = line.find('|') else { continue };
        let code = line[bar + 1..].trim();
        if let Some(eq) = code.find(" = ") {
            let name = code[..eq].trim();
            if !name.is_empty() && name.chars().all(|c| c.is_ascii_alphanumeric() || c == '_') {
                return code[eq..].contains('|');
            }
        }
    }
    true
}

fn history_for(seed: u64, gid: usize, i: usize, n_src: usize) -> History {
    let mut r = Rng::new(seed).fork(0xC22_0000 + gid as u64).fork(i as u64);
    if i % 3 == 0 {
        return History::random(&mut r, n_src, 6, 5, 2);
    }
    // sparse: per source and per tick an empty batch with probability ~40 %, items from a 3 x 3 domain, so that
    // "one input of a binary operator empty in this tick, the other not" is frequent and keys recur across ticks
    let t = 3 + r.below(5);
    let mut ticks = Vec::new();
    for _ in 0..t {
        let mut per = Vec::new();
        for _ in 0..n_src {
            let mut v = Vec::new();
            if !r.chance(2, 5) {
                for _ in 0..1 + r.below(4) {
                    v.push((r.range(0, 2), r.range(0, 2)));
                }
            }
            per.push(v);
        }
        ticks.push(per);
    }
    for _ in 0..2 {
        ticks.push(vec![Vec::new(); n_src]);
    }
    History { ticks }
}

/// Did some binary operator of the group see, in some tick, one input empty and the other non-empty, with a key
/// (whole item for `difference`) of that tick arriving on the then-empty input in a later tick? Returns the kinds.
fn one_sided_ticks(g: &Group22, trace: &Trace, n_ticks: usize) -> Vec<String> {
    let mut out = Vec::new();
    let empty: Vec<It> = Vec::new();
    for b in &g.bins {
        let whole = b.kind.starts_with("difference");
        let at = |site: u16, t: usize| -> &Vec<It> { trace.get(&(site, t as u32)).unwrap_or(&empty) };
        let mut hit = false;
        'outer: for t in 0..n_ticks {
            for (e, f) in [(b.site_a, b.site_b), (b.site_b, b.site_a)] {
                let (xe, xf) = (at(e, t), at(f, t));
                if xe.is_empty() && !xf.is_empty() {
                    for t2 in t + 1..n_ticks {
                        if at(e, t2).iter().any(|y| xf.iter().any(|x| if whole { x == y } else { x.0 == y.0 })) {
                            hit = true;
                            break 'outer;
                        }
                    }
                }
            }
        }
        if hit {
            out.push(b.kind.clone());
        }
    }
    out
}

fn case_json(m: &Manifest, g: &Group22, r: &Variant22, v: &Variant22, h: &History, extra: vcommon::Value) -> vcommon::Value {
    json!({
        "engine": "dx_shape", "prop": "C22", "gen_seed": m.seed, "gen_tier": m.tier,
        "group": g.gid, "ref_variant": r.vid, "variant": v.vid, "history": h,
        "inserts": v.inserts, "order_seed": v.order_seed,
        "ref_program": r.text, "variant_program": v.text, "detail": extra,
    })
}

/// Judge one (group, reference variant, variant, history). Returns true if a violation was reported.
fn judge_pair(rep: &mut Reporter, m: &Manifest, reg: &Registry, g: &Group22, r: &Variant22, v: &Variant22, h: &History, ref_res: &RunRes) -> bool {
    let Some(res) = run_prog(reg, &v.prog_id, h) else {
        rep.count("missing_program_fn");
        return false;
    };
    rep.eval();
    let flips = flips_between(g, r, v);
    let sg_changed = r.analysis.n_subgraphs != v.analysis.n_subgraphs;
    match (ref_res, &res) {
        (RunRes::TooBig, _) | (_, RunRes::TooBig) => {
            rep.count("history_skipped_trace_too_big");
            false
        }
        (RunRes::Ok(a), RunRes::Ok(b)) => {
            let nonempty = a.values().any(|x| !x.is_empty());
            if (!flips.is_empty() || sg_changed) && nonempty {
                rep.nontrivial(hash_of(&(g.gid, v.vid, h)));
                rep.sample(|| json!({"group": g.gid, "variant": v.vid, "inserts": v.inserts, "flipped": flips, "subgraphs": [r.analysis.n_subgraphs, v.analysis.n_subgraphs], "ticks": h.n_ticks(), "items": h.total_items()}));
            }
            if let Some(d) = first_diff(g, &flips, a, b) {
                let ordered = g.sinks.iter().find(|s| s.site == d.site).map(|s| s.ordered).unwrap_or(false);
                rep.violation(
                    &format!(
                        "C22|trace|differs|{}{}|{}",
                        base_kind(&d.culprit),
                        if d.culprit.ends_with(":same-colour") { ":same-colour" } else { "" },
                        diff_shape(&d.ref_items, &d.var_items)
                    ),
                    &format!(
                        "group {} variant {} ({:?}) vs variant {}: output of `{}` ({}) in tick {} is {:?} but {:?} in the reference variant ({}); colours {:?} vs {:?}",
                        g.gid, v.vid, v.inserts, r.vid, d.culprit_name, d.culprit, d.tick, d.var_items, d.ref_items, if ordered { "ordered" } else { "as multisets" },
                        v.analysis.colors.get(&d.culprit_name), r.analysis.colors.get(&d.culprit_name)
                    ),
                    case_json(m, g, r, v, h, json!({"site": d.site, "tick": d.tick, "operator": d.culprit_name, "kind": d.culprit, "ref_items": d.ref_items, "variant_items": d.var_items, "flipped": flips})),
                );
                true
            } else {
                false
            }
        }
        (RunRes::Panic(ma, _), RunRes::Panic(mb, _)) if ma == mb => {
            rep.count("both_variants_panic_identically");
            false
        }
        (a, b) => {
            let (ma, mb) = (
                if let RunRes::Panic(x, _) = a { x.clone() } else { "no panic".to_string() },
                if let RunRes::Panic(x, _) = b { x.clone() } else { "no panic".to_string() },
            );
            let k = if flips.len() == 1 { flips[0].1.clone() } else if flips.is_empty() { "same-colours".to_string() } else { "several-operators-flipped".to_string() };
            rep.violation(
                &format!("C22|trace|panic-in-one-variant|{k}"),
                &format!("group {} variant {} ({:?}): {} / reference variant {}: {}", g.gid, v.vid, v.inserts, mb, r.vid, ma),
                case_json(m, g, r, v, h, json!({"ref_panic": ma, "variant_panic": mb, "flipped": flips})),
            );
            true
        }
    }
}

pub fn run(args: &Args, m: &Manifest, reg: &Registry) {
    let mut rep = Reporter::new("C22", args.seed);
    if let Some(case) = args.replay_case() {
        replay(&mut rep, m, reg, &case);
        rep.finish("replay", false);
        return;
    }
    let n_hist = args.budget(200, 600, 3);
    let mut flipped_instances: u64 = 0;
    let (mut one_sided_pairs, mut one_sided_pairs_with_one_sided_variant) = (0u64, 0u64);
    let mut one_sided_by_kind: BTreeMap<String, u64> = BTreeMap::new();
    let mut mixed_causes: std::collections::BTreeSet<(String, String)> = Default::default();
    let mut all_fail_causes: Vec<(usize, String, String)> = Vec::new();
    let mut flipped_kinds: BTreeMap<String, u64> = BTreeMap::new();
    let mut sg_changed_groups = 0u64;
    let mut all_fail_groups = 0u64;
    for g in &m.c22 {
        for n in g.kinds.values() {
            rep.count(&format!("op.{}", base_kind(n)));
        }
        for b in &g.bins {
            rep.count(&format!("binop.{}", b.kind));
        }
        let ok_of = |v: &Variant22| v.analysis.ok && !m.rustc_failed.contains_key(&v.prog_id);
        // ---- compile outcomes: all or none
        rep.eval();
        let oks: Vec<&Variant22> = g.variants.iter().filter(|v| ok_of(v)).collect();
        let bad: Vec<&Variant22> = g.variants.iter().filter(|v| !ok_of(v)).collect();
        if oks.is_empty() {
            // none compiles: consistent with the property; whether the generator is to blame is decided below
            let v = &g.variants[0];
            let msg = if !v.analysis.ok { v.analysis.err.clone() } else { m.rustc_failed.get(&v.prog_id).cloned().unwrap_or_default() };
            // the quoted statement carries no generator-written closure: the generator cannot be to blame
            let class = if err_statement_has_user_closure(&msg) { err_class(&msg) } else { format!("{}:in-generated-code", err_class(&msg)) };
            all_fail_causes.push((g.gid, class, err_operator(g, v, &msg)));
            continue;
        }
        let r = oks[0];
        for v in &bad {
            let (stage, msg) = if !v.analysis.ok { ("front-end", v.analysis.err.clone()) } else { ("rustc", m.rustc_failed[&v.prog_id].clone()) };
            mixed_causes.insert((err_class(&msg), err_operator(g, v, &msg)));
            rep.violation(
                &format!("C22|compile|mixed-outcome|{stage}|{}|{}", err_class(&msg), err_operator(g, v, &msg)),
                &format!("group {}: variant {} ({:?}) is rejected by the {stage} while variant {} of the same program compiles: {}", g.gid, v.vid, v.inserts, r.vid, &msg[..msg.len().min(400)]),
                json!({"engine": "dx_shape", "prop": "C22", "gen_seed": m.seed, "gen_tier": m.tier, "group": g.gid, "variant": v.vid, "ref_variant": r.vid,
                       "inserts": v.inserts, "variant_program": v.text, "ref_program": r.text, "error": msg, "compile_only": true}),
            );
        }
        for v in oks.iter() {
            if let Some(k) = &v.one_sided {
                rep.count(&format!("one_sided_variant.{k}"));
            }
        }
        for v in g.variants.iter() {
            for i in &v.inserts {
                rep.count(&format!("insert.{}", i.split('@').next().unwrap()));
            }
            if v.order_seed.is_some() {
                rep.count("variant.declaration_order_shuffled");
            }
        }
        let mut any_sg = false;
        for v in oks.iter().skip(1) {
            let f = flips_between(g, r, v);
            flipped_instances += f.len() as u64;
            for (_, k) in &f {
                *flipped_kinds.entry(base_kind(k)).or_insert(0) += 1;
            }
            if v.analysis.n_subgraphs != r.analysis.n_subgraphs {
                any_sg = true;
            }
        }
        if any_sg {
            sg_changed_groups += 1;
        }
        // ---- traces
        let mut reported = vec![false; g.variants.len()];
        for i in 0..n_hist {
            let h = history_for(m.seed, g.gid, i, g.n_src);
            let Some(ref_res) = run_prog(reg, &r.prog_id, &h) else {
                rep.count("missing_program_fn");
                break;
            };
            if let RunRes::Panic(msg, _) = &ref_res {
                rep.count("reference_variant_panicked");
                let _ = msg;
            }
            if let RunRes::Ok(tr) = &ref_res {
                let kinds = one_sided_ticks(g, tr, h.n_ticks());
                if !kinds.is_empty() {
                    one_sided_pairs += 1;
                    if oks.iter().any(|v| v.one_sided.is_some()) {
                        one_sided_pairs_with_one_sided_variant += 1;
                    }
                }
                for k in kinds {
                    *one_sided_by_kind.entry(k).or_insert(0) += 1;
                }
            }
            for v in oks.iter().skip(1) {
                if reported[v.vid] {
                    continue; // one report per (group, variant) is enough
                }
                if judge_pair(&mut rep, m, reg, g, r, v, &h, &ref_res) {
                    reported[v.vid] = true;
                }
            }
        }
    }
    // a group in which no variant compiles is a generator defect unless the same error (class, operator) also
    // makes only *some* variants of another group fail (there the user code is evidently well-typed)
    for (gid, class, op) in &all_fail_causes {
        if mixed_causes.contains(&(class.clone(), op.clone())) || class.ends_with(":in-generated-code") {
            rep.count("groups_where_no_variant_compiles_for_a_cause_seen_in_mixed_groups");
        } else {
            all_fail_groups += 1;
            eprintln!("group {gid}: no variant compiles ({class}, {op})");
        }
    }
    for (k, n) in &flipped_kinds {
        rep.count_n(&format!("flip.{k}"), *n);
    }
    rep.count_n("flipped_operator_instances", flipped_instances);
    rep.count_n("pairs.binary_op_one_input_empty_and_key_recurs_later", one_sided_pairs);
    rep.count_n("pairs.binary_op_one_input_empty_and_key_recurs_later.with_one_sided_variant", one_sided_pairs_with_one_sided_variant);
    for (k, n) in &one_sided_by_kind {
        rep.count_n(&format!("one_input_empty_key_recurs.{k}"), *n);
    }
    rep.count_n("groups_with_subgraph_count_change", sg_changed_groups);
    rep.count_n("groups", m.c22.len() as u64);
    rep.count_n("programs_compiled", m.c22.iter().map(|g| g.variants.iter().filter(|v| v.analysis.ok && !m.rustc_failed.contains_key(&v.prog_id)).count() as u64).sum());
    rep.extra("generator_rejects", json!(m.gen_rejects.iter().filter(|r| r.starts_with("C22")).count()));
    let quick = matches!(args.tier, vcommon::Tier::Quick);
    let miri = matches!(args.tier, vcommon::Tier::Miri);
    if !miri {
        let ng = m.c22.len() as u64;
        rep.require(all_fail_groups == 0, "some group has no compiling variant at all (generator emits ill-typed programs: harness defect)");
        rep.require(m.gen_rejects.iter().filter(|r| r.starts_with("C22")).count() <= m.c22.len() / 4 + 2, "too many base programs rejected by the front end (generator defect)");
        rep.require(flipped_instances >= 2 * ng, "too few operator instances whose pull/push colour flipped between variants");
        rep.require(flipped_kinds.len() >= if quick { 8 } else { 12 }, "too few distinct operator kinds flipped between pull and push");
        rep.require(sg_changed_groups * 3 >= ng, "too few programs whose subgraph count changed");
        for k in ["fold", "reduce", "unique", "sort", "persist", "map", "filter", "flat_map"] {
            rep.require(flipped_kinds.get(k).copied().unwrap_or(0) >= 1, &format!("operator `{k}` was never flipped between pull and push"));
        }
        for k in ["identity", "map_id", "tee_null", "union1", "tee1", "union_empty", "handoff"] {
            rep.require(rep.counter(&format!("insert.{k}")) >= 1, &format!("shape perturbation `{k}` never used"));
        }
        // binary operators: every family, the mixed persistence combinations, a handoff/tee on exactly one input in
        // some variant, and histories in which one input is empty while the other is not and the key comes back
        rep.require(one_sided_pairs_with_one_sided_variant >= 20 * ng, "too few (group, history) pairs in which a binary operator sees one input empty, the other non-empty, and a key of that tick recurs later on the empty input");
        for fam in crate::g22::BIN_FAMILIES {
            let c = rep.counter(&format!("one_sided_variant.{fam}"));
            rep.require(c >= 2, &format!("no variant with a handoff/tee on exactly one input of `{fam}`"));
            let c = rep.counter(&format!("one_sided_variant.{fam}+both"));
            rep.require(c >= 2, &format!("no variant with a handoff/tee on both inputs of `{fam}`"));
        }
        for k in ["anti_join'tick,'static", "anti_join'static,'tick", "difference'tick,'static", "difference'static,'tick", "join'tick,'static", "join'static,'tick", "cross_singleton'static", "zip'tick,'static"] {
            let c = rep.counter(&format!("binop.{k}"));
            rep.require(c >= 1, &format!("binary operator `{k}` never generated"));
            if !k.starts_with("cross") && !k.starts_with("zip") {
                let c = one_sided_by_kind.get(k).copied().unwrap_or(0);
                rep.require(c >= 20, &format!("`{k}` never (or too rarely) saw one input empty with the key recurring later"));
            }
        }
        rep.require(rep.counter("missing_program_fn") == 0, "a compiled program is missing from the registry");
    }
    rep.finish(
        "Seeded base programs over (i64,i64) items (27-operator catalogue incl. all persistence variants, defer_tick cycles) each with 3-6 shape variants \
         (identity()/map(|x| x)/tee()+null()/tee()+for_each/unary union()/unary tee()/union with an empty source/handoff() inserted on random edges, statements \
         shuffled so binary operators see their inputs declared in either order), chosen among 14 candidates to maximise operators whose pull/push colour \
         (read from the real front end's node_color_map) flips. Compile outcome is observed per variant (front end in-process, rustc per crate); every compiled \
         variant is run on 200/600 random histories (<= 6 ticks x <= 5 items per source + 2 flush ticks) and compared with the base variant per sink per tick \
         (sequence where the order is documented, multiset otherwise). Non-trivial = (group, variant, history) where some operator's colour flipped or the \
         subgraph count changed and the trace is non-empty.",
        false,
    );
}

fn replay(rep: &mut Reporter, m: &Manifest, reg: &Registry, case: &vcommon::Value) {
    let gid = case["group"].as_u64().unwrap_or(0) as usize;
    let Some(g) = m.c22.iter().find(|g| g.gid == gid) else {
        eprintln!("replay: group {gid} not in manifest");
        return;
    };
    let vid = case["variant"].as_u64().unwrap_or(0) as usize;
    let rid = case["ref_variant"].as_u64().unwrap_or(0) as usize;
    let (Some(v), Some(r)) = (g.variants.iter().find(|v| v.vid == vid), g.variants.iter().find(|v| v.vid == rid)) else { return };
    if case.get("compile_only").and_then(|x| x.as_bool()).unwrap_or(false) {
        let ok_of = |v: &Variant22| v.analysis.ok && !m.rustc_failed.contains_key(&v.prog_id);
        rep.eval();
        if ok_of(r) && !ok_of(v) {
            let msg = if !v.analysis.ok { v.analysis.err.clone() } else { m.rustc_failed[&v.prog_id].clone() };
            let stage = if !v.analysis.ok { "front-end" } else { "rustc" };
            rep.violation(&format!("C22|compile|mixed-outcome|{stage}|{}|{}", err_class(&msg), err_operator(g, v, &msg)), &msg, case.clone());
        }
        return;
    }
    let h: History = match vcommon::serde_json::from_value(case["history"].clone()) {
        Ok(h) => h,
        Err(e) => {
            eprintln!("replay: bad history: {e}");
            return;
        }
    };
    let Some(ref_res) = run_prog(reg, &r.prog_id, &h) else { return };
    judge_pair(rep, m, reg, g, r, v, &h, &ref_res);
}
