from .registry import reg, cargotest as _cargotest


def cargotest(ws, pkg, test):
    # the watchdog also covers (re)building hydro_lang and the per-flow simulator dylibs, which takes
    # tens of minutes on a loaded machine after any change under /repo; the monitors themselves need
    # 1-3 min (quick) once everything is cached
    return _cargotest(ws, pkg, test, timeout=4 * 3600)

_SIM_TRUST = ("the simulator's dylib path (libloading / generated code) is exercised as shipped; it is outside Miri's reach, "
              "so only behaviour is judged")

reg("C36", [cargotest("hydro", "hv_sim_a", "tests::c36_hooks"),
            cargotest("hydro", "hv_sim_a", "tests::c36_end_to_end")],
    assumptions=[_SIM_TRUST],
    technique="runtime monitor: every SimHook/SimInlineHook of sim/runtime.rs driven by bolero's exhaustive engine exactly as run_hooks does, "
              "each decision judged against queue-before/after and the output channel; plus decision logs of the real scheduler parsed and "
              "reconciled with each flow's own per-tick output",
    text="All 18 hook types (13 tick-input / top-level hooks, 5 inline hooks) are built directly, fed uniquely numbered items (flat queues of up to 4 items, "
         "6 thorough; keyed queues over 2-3 keys and a 5-key map; two-sided merges; two arrival phases) and every decision sequence of bolero's exhaustive "
         "driver is executed with force_nontrivial off and on, as single rounds, drain sessions and multi-hook ticks resolved by a transcription of run_hooks. "
         "Each round is checked for: released + remaining == pending, in-order prefix (ordered) or subset (unordered) per key, snapshot versions never older "
         "with truthful is-new flags, forced => something new, truthful return flag and log line. End to end, 13 small simulated programs emit every tick's "
         "batch as a Vec; all instances of exhaustive mode (inputs <= 4 items) and 150 (3000 thorough) byte-driven instances per flow with the decision log "
         "captured are checked: no scheduled tick without a new item or snapshot, logged releases equal what the tick received, nothing lost or duplicated.",
    note="Queues beyond 6 items / 3 keys, hooks nested in larger programs and schedules of the byte-driven runs beyond the sampled ones are not explored; "
         "the log parser is trusted (it is validated against the output channel at hook level).")

reg("C37", [cargotest("hydro", "hv_sim_a", "tests::c37_hooks"),
            cargotest("hydro", "hv_sim_a", "tests::c37_end_to_end")],
    assumptions=[_SIM_TRUST],
    technique="runtime monitor: the set of outcomes reached by bolero's exhaustive engine over real hooks / real exhaustive-mode runs is compared for "
              "set equality with an independently enumerated decision space",
    text="For every hook configuration of C36 (about 2300 configurations, queues <= 4 items quick / 6 thorough) the multiset of outcomes over all executions "
         "equals a reference enumeration written from the property text: all prefixes, all subsets (batch order ignored; no subset reached twice, which is "
         "what min_index pruning promises), per-key products, all snapshot versions plus re-release, none-or-any-one for one-at-a-time hooks, all ordered "
         "arrangements of non-empty subsets for the fold hook, all permutations / order-preserving interleavings for inline hooks, and per-hook products "
         "minus 'nothing new' for multi-hook ticks. End to end, CompiledSim::exhaustive on nine small programs reaches exactly the closed-form trace space: "
         "2^(n-1) compositions, Fubini-many ordered set partitions (1,3,13,75), both orders / all interleavings of two ready ticks, n! orders, C(a+b,a) merges, "
         "2^n version sequences, n!*2^(n-1)*2 fold traces, draining per-key products (n <= 4; 5-6 thorough).",
    note="Completeness is shown for these bounded configurations only; the reference enumerators are the harness's (small, written from the property and "
         "the hook doc comments). Whether bolero's exhaustive driver itself enumerates every value of a range is covered only through these outcomes.")

reg("C38", [cargotest("hydro", "hv_sim_a", "tests::c38_replay")],
    assumptions=[_SIM_TRUST],
    technique="runtime monitor: differential replay — each random decision byte string is fed twice to CompiledSim::fuzz_repro with the decision log "
              "captured; logs, per-tick outputs and verdicts must be identical",
    text="13 corpus programs (keyed hooks with 6-7 keys, i.e. FxHashMap iteration; a process->3-member-cluster->process program over the simulated network; "
         "folds, snapshots, merges) x 200 (5000 thorough) random byte strings of length 0..256 per program, each replayed twice in the same process. Test bodies "
         "contain a schedule-dependent continue_if! and a schedule-dependent failing assertion, so pass / assumption-failed / panic verdicts all occur and are "
         "compared (including the panic message), together with byte-identical decision logs and identical per-tick outputs.",
    note="Both runs happen in one process with one compiled dylib; cross-process or cross-build determinism (e.g. address-dependent hashing) is not covered.")
