"""Lattice library properties served by engines/rt/mon_lattices (C01, C02, C03, C04, C06)."""
from .registry import reg, mon

_NOTE_MODEL = ("The model (model.rs, ~450 lines: BTreeSet/BTreeMap/enum term algebra with its own join, order, "
               "bottom and greatest-element predicates) is the documented abstract lattice: bottom-valued MapUnion "
               "entries invisible, WithBot(Some(bottom)) = bottom, WithTop adjoins a NEW top, union-find parent maps "
               "read as partitions, VecUnion length significant. Element/key type is u8 throughout; read-only "
               "representations (VecSet, Vec, ArraySet of length 0-3, SingletonSet, OptionSet, EmptySet and the map analogues) are "
               "only built well-formed (no duplicates). GHT, tombstone lattices and bimorphisms are served elsewhere.")

reg("C01", [mon("rt", "mon_lattices")],
    technique="runtime monitor: real Merge impls of ~57 lattice types driven over bounded-exhaustive + random values, results judged by an independent model (revealed contents) and by the crate's ==",
    text="For every self-mergeable lattice type of the table (SetUnion, MapUnion over 5 value families, Max/Min over 5 scalars, WithBot/WithTop and their nestings, Pair, DomPair with total key, VecUnion, UnionFind, Conflict, (), three #[derive(Lattice)] structs; HashMap/BTreeMap/HashSet/BTreeSet backings) idempotence on all singles, commutativity on all pairs and associativity on the full cube of a 36 (thorough 80) value list plus 4 000 (100 000) random triples of a 200 (400) value list; plus order-independence/idempotence of merging read-only representations (~45 (Self,Other) pairs). Point: equal merge returns false, unequal merge must panic. DomPair over a partially ordered key is only recorded.",
    note=_NOTE_MODEL)

reg("C02", [mon("rt", "mon_lattices")],
    technique="runtime monitor: returned changed-flag of every Merge<Other> impl compared with model(before) vs model(after), result compared with the model join",
    text="For ~215 (Self, Other) pairs incl. ~155 cross-representation ones (zero-length ArraySet/ArrayMap, EmptySet/EmptyMap, OptionSet/OptionMap(None) also nested as WithBot / MapUnion / VecUnion / Pair / DomPair values), all pairs of a 200 (thorough 400) value list (sampled above 20 000 / 160 000 per pair): flag == (model(after) != model(before)), model(after) == model(before) join model(other), flag false => other <= before. Independent of partial_cmp.",
    note=_NOTE_MODEL)

reg("C03", [mon("rt", "mon_lattices")],
    technique="runtime monitor: partial_cmp / == / operators / naive_cmp / is_bot / is_top / Default of every (Self, Other) impl pair compared with the model order",
    text="For ~535 (Self, Other) comparison pairs (every cross-representation PartialOrd/PartialEq impl of the table, incl. zero-length ArraySet/ArrayMap and empty/None containers at top level and nested as values) all pairs of a 200 (400) value list (sampled above 12 000 / 160 000): partial_cmp, ==, <=, <, >=, >, != equal the model order; naive_cmp == partial_cmp == model; partial-order laws on all triples of a 30 (70) value list for 45 types; is_bot / is_top equal the model's least / greatest element for ~120 types (>= 20 of them with a degenerate-size bottom representation, enforced); Default is bottom for ~75 types. A panic is a violation.",
    note=_NOTE_MODEL + " is_top is judged against the abstract lattice over an unbounded element domain (sets/maps/vectors/partitions have no top).")

reg("C04", [mon("rt", "mon_lattices")],
    technique="runtime monitor: histories of merge/union/LatticeFrom applied in lock-step to all representations of a family, revealed contents and union-find same-matrix compared with a model state after every step; rho-shaped parent maps in watchdogged child processes",
    text="26 families; per family ~500 enumerated 4-step histories and 800 (thorough 8 000) random histories of up to 12 (40) steps: operand in any representation (incl. read-only), LatticeFrom between self representations, round trips through read-only representations. Union-find: every history of 5 (6) union / merge-an-atom steps over 4 items (2 orientation variants) with the full same(a,b) matrix judged after each step against BFS components, read-only representations queried at the end; multi-edge merge-in deltas (same item listed 2-3 times with different parents, held by VecMap/ArrayMap2/ArrayMap3; Merge reads them as a list of union edges): every 1-step and every third (thorough: every) 2-step history over all such deltas on 4 items + unions, from the empty and two non-empty union-finds, plus random ones inside the random histories; 8 (16) rho-shaped parent-map cases run 3x each in child processes under an 8 s (20 s) watchdog, reported only on 3/3 reproduction.",
    note=_NOTE_MODEL + " A hang is recognised by wall-clock in the child only; the parent verdict requires 3/3 agreement, otherwise the run is inconclusive.")

reg("C06", [mon("rt", "mon_lattices")],
    technique="runtime monitor: atomize() of every Atomize type, atoms judged by the model (non-bottom, empty iff bottom, re-merge into Default reproduces the model value)",
    text="29 Atomize types (SetUnion, MapUnion incl. nested MapUnion and WithBot/WithTop values, WithBot, WithTop, their nestings incl. WithTop<WithTop<..>>, WithTop<WithBot<WithTop<..>>> (inner lattice with a reachable top) and wrappers of the one-point lattice (), UnionFind, ()) x the union of the 36/200/4 000 (thorough 80/400/20 000) value lists: no atom is bottom (crate is_bot and model), no atoms <=> bottom, merging the atoms into Default reveals the original model value.",
    note=_NOTE_MODEL)
