"""Driver for the dx_shape checks (C22, C25, C26): builds the generator, lets it write a cargo workspace of
generated `dfir_syntax!` programs keyed on (seed, tier), compiles that workspace with the real proc-macro
(one rustc run shared by the three properties; cargo's own fingerprints decide what is stale), attributes a
rustc failure to single programs in a second pass, and runs the resulting binary.

Layout (all under the dfirx target dir, git-ignored):
  <tgt>/dxshape-gen/s<seed>-<tier>/   generated workspace: p0..pN (programs), run (binary), gen.json
  <tgt>/dxshape-gen/target/           cargo target dir shared by all generated workspaces
"""
import fcntl
import glob
import json
import os
import shutil
import subprocess
import time

from . import core

KEEP = 6  # generated workspaces kept (per target dir)


def _cargo_json(cmd, cwd, env, logf, timeout):
    """Run cargo with --message-format=json; returns (ok, {package name: [rendered error, ...]})."""
    with open(logf, "a") as lf:
        lf.write("\n$ " + " ".join(cmd) + "\n")
        lf.flush()
        t0 = time.time()
        p = subprocess.Popen(cmd, cwd=cwd, env=env, stdout=subprocess.PIPE, stderr=lf, text=True)
        try:
            out, _ = p.communicate(timeout=timeout)
        except subprocess.TimeoutExpired:
            p.kill()
            p.communicate()
            raise core.Inconclusive("watchdog %ds fired for: %s" % (timeout, " ".join(cmd[:6])))
        lf.write("[rc=%d %.1fs]\n" % (p.returncode, time.time() - t0))
        errors = {}
        ok = p.returncode == 0
        for line in out.splitlines():
            if not line.startswith("{"):
                continue
            try:
                o = json.loads(line)
            except Exception:
                continue
            if o.get("reason") == "compiler-message" and o.get("message", {}).get("level") == "error":
                pid = o.get("package_id", "")
                name = pid.split("#")[-1].split("@")[0] if "#" in pid else pid.split(" ")[0]
                # path+file:///dir/name#0.0.0 form: the name is the last path component
                if name and name[0].isdigit():
                    name = pid.split("#")[0].rstrip("/").split("/")[-1]
                txt = o["message"].get("rendered") or o["message"].get("message", "")
                errors.setdefault(name, []).append(txt)
                lf.write("[error in %s] %s\n" % (name, txt[:1500]))
            elif o.get("reason") == "build-finished":
                ok = ok and bool(o.get("success"))
    return ok, errors


def _prune(root, keep_dir):
    dirs = [d for d in glob.glob(os.path.join(root, "s*-*")) if os.path.isdir(d) and d != keep_dir]
    dirs.sort(key=lambda d: os.path.getmtime(d))
    while len(dirs) >= KEEP:
        d = dirs.pop(0)
        base = os.path.basename(d)  # s<seed>-<tier>
        seed, tier = base[1:].split("-", 1)
        only = ""
        for t in ("quick", "thorough"):
            if tier.startswith(t):
                tier, only = t, tier[len(t):]
        tag = "s%s%s%s" % (seed, tier[:1], only.lower())
        shutil.rmtree(d, ignore_errors=True)
        rel = os.path.join(root, "target", "release")
        for pat in ("deps/*dxs_%s_*" % tag, ".fingerprint/dxs_%s_*" % tag, "build/dxs_%s_*" % tag, "dxs_%s_*" % tag,
                    "deps/dxs_%s_*" % tag):
            for f in glob.glob(os.path.join(rel, pat)):
                if os.path.isdir(f):
                    shutil.rmtree(f, ignore_errors=True)
                else:
                    try:
                        os.remove(f)
                    except OSError:
                        pass


def _build_generated(seed, tier, logf, only=None):
    wsdir, env = core.cargo_build("dfirx", "dx_shape", logf)
    gen = core.bin_path("dfirx", "dx_shape")
    _, tgt = core.workspace_dir("dfirx")
    root = os.path.join(tgt, "dxshape-gen")
    gdir = os.path.join(root, "s%d-%s%s" % (seed, tier, only or ""))
    os.makedirs(gdir, exist_ok=True)
    tag = "s%d%s%s" % (seed, tier[:1], (only or "").lower())
    env = dict(env)
    env["CARGO_TARGET_DIR"] = os.path.join(root, "target")
    lockf = open(os.path.join(root, ".lock"), "w")
    fcntl.flock(lockf, fcntl.LOCK_EX)
    try:
        _prune(root, gdir)
        base = [gen, "gen", "--seed", str(seed), "--tier", tier, "--out", gdir, "--repo", core.repo_path(),
                "--self", os.path.join(wsdir, "dx_shape")]
        if only:
            base += ["--only", only]

        def gen_pass(extra):
            rc, out = core.run_logged(base + extra, wsdir, env, logf, 600)
            with open(logf, "a") as lf:
                lf.write(out[-4000:])
            if rc != 0:
                raise core.Inconclusive("dx_shape gen failed rc=%d (see %s)" % (rc, logf))

        gen_pass([])
        lock = os.path.join(gdir, "Cargo.lock")
        if not os.path.exists(lock):
            shutil.copy(os.path.join(wsdir, "Cargo.lock"), lock)
        run_pkg = "dxs_%s_run" % tag
        cargo = ["cargo", core.TOOLCHAIN, "build", "--release", "--offline", "--message-format=json", "--keep-going"]
        ok, errors = _cargo_json(cargo + ["-p", run_pkg], gdir, env, logf, 7200)
        if not ok:
            spref = "dxs_%s_s_" % tag
            parts = sorted(n for n in errors if n.startswith("dxs_%s_p" % tag))
            failed = {n[len(spref):]: "\n".join(v)[:3000] for n, v in errors.items() if n.startswith(spref)}
            other = sorted(n for n in errors if not n.startswith("dxs_%s_p" % tag) and not n.startswith(spref))
            if other or not (parts or failed):
                raise core.Inconclusive("generated workspace failed outside the generated programs: %s (see %s)"
                                        % (", ".join(other) or "no compiler message", logf))
            if parts:
                # second pass: one crate per program of the failing part crates
                gen_pass(["--reuse", "--isolate", ",".join(parts)])
                ok2, errors2 = _cargo_json(cargo + ["--workspace"], gdir, env, logf, 7200)
                pref = "dxs_%s_i_" % tag
                iso = {n[len(pref):]: "\n".join(v)[:3000] for n, v in errors2.items() if n.startswith(pref)}
                if not iso:
                    raise core.Inconclusive("part crates %s fail but no single program does (see %s)" % (parts, logf))
                failed.update(iso)
            ff = os.path.join(gdir, "failed.json")
            json.dump(failed, open(ff, "w"), indent=1)
            gen_pass(["--reuse", "--failed", ff])
            shutil.rmtree(os.path.join(gdir, "iso"), ignore_errors=True)
            ok3, errors3 = _cargo_json(cargo + ["-p", run_pkg], gdir, env, logf, 7200)
            if not ok3:
                raise core.Inconclusive("generated workspace still fails after leaving out %d programs: %s (see %s)"
                                        % (len(failed), sorted(errors3), logf))
        exe = os.path.join(root, "target", "release", run_pkg)
        if not os.path.exists(exe):
            raise core.Inconclusive("generated binary %s missing" % exe)
        # run a private copy so that a concurrent rebuild (other seed) cannot replace it under us
        priv = os.path.join(gdir, "run.bin")
        if not os.path.exists(priv) or os.path.getmtime(priv) < os.path.getmtime(exe):
            shutil.copy2(exe, priv)
        os.utime(gdir, None)
        return wsdir, env, priv
    finally:
        fcntl.flock(lockf, fcntl.LOCK_UN)
        lockf.close()


def run(prop, tier, seed, logf, replay):
    gseed, gtier = int(seed), tier
    if replay:
        try:
            case = json.load(open(replay)).get("case", {})
            gseed = int(case.get("gen_seed", gseed))
            gtier = case.get("gen_tier", gtier)
        except Exception:
            pass
    # VERIF_DXSHAPE_ONLY=1: compile only the requested property's programs (mutation validation: every mutated
    # compiler would otherwise recompile all three properties' programs). Default: one workspace shared by all.
    only = prop if os.environ.get("VERIF_DXSHAPE_ONLY") else None
    wsdir, env, exe = _build_generated(gseed, gtier, logf, only)
    cmd = [exe, "--prop", prop, "--tier", tier, "--seed", str(seed)]
    if replay:
        cmd += ["--replay", replay]
    rc, out = core.run_logged(cmd, wsdir, env, logf, 3 * 3600 if tier == "thorough" else 1500)
    with open(logf, "a") as lf:
        lf.write(out[-20000:])
    s, v = core.parse_lines(out)
    if rc != 0 and not v:
        raise core.Inconclusive("dx_shape run exited rc=%d (see %s)" % (rc, logf))
    if not s and not replay:
        raise core.Inconclusive("dx_shape run printed no summary (see %s)" % logf)
    for x in s:
        x.setdefault("stage", "native")
        x["engine"] = "dx_shape"
    return s, v
