from .registry import reg, mon

_CORPUS = ("hand-written corpus of small Hydro flows (hv_det_flows) compiled by the production code generator "
           "generate_embedded() and driven tick by tick (run_tick_sync) with the harness choosing which input "
           "items each tick receives")

reg("C28", [mon("hydro", "hv_det_emb")],
    technique="runtime monitor: " + _CORPUS + "; metamorphic oracle over all tick partitions plus plain-Rust reference",
    text="97 flows using only safe top-level APIs (map/filter/flat_map/filter_map/inspect/partition/chain/"
         "merge_unordered/cross_product/join (symmetric and half)/anti_join/unique/enumerate/scan/limit/fold/"
         "reduce/count/max/min/first/last/collect_vec/cross_singleton/threshold, keyed fold/reduce/first/"
         "value_counts/enumerate/scan/limit/get/unique/entries/values/keys, keyed-singleton get_max_key/"
         "key_count/into_singleton, singleton/optional map/filter/or/unwrap_or; top-level joins / cross products "
         "with Bounded operands: source_iter x source_iter via cross_product_nested_loop, cross_product, join, "
         "repeat_with_keys and KeyedSingleton::join_keyed_stream, each next to an unrelated unbounded input that is "
         "echoed to a second output so that later ticks run, plus bounded-left x unbounded-right and "
         "unbounded-left x bounded-right joins). For every flow 500 (quick) / "
         "5000 (thorough) random inputs of <= 6 items in total are run under EVERY partition of the inputs into "
         "ticks (all sequences of per-input chunk-size vectors; <= 2000 per input, every 5th with empty ticks "
         "inserted) and 60/500 30-item inputs under 40/100 random partitions each; the final observable (sequence for "
         "TotalOrder, multiset for NoOrder, last per-tick sample for singletons/optionals, final map for keyed "
         "singletons) must equal the one-tick run, which must equal a plain-Rust reference.",
    note="Observers (assume_ordering / snapshot+all_ticks wrappers) are trusted and outside the judged program. "
         "Only the embedded/production path with run_tick_sync is exercised; inputs are i64 / (i64,i64) with small "
         "domains; flows with batch()/sliced! are out of scope (every such API takes a nondet! argument). "
         "key_count()/into_singleton() on MonotonicValue/Unbounded keyed singletons cannot be built with debug "
         "assertions on (metadata assertion panics) and are therefore not in the corpus.")

reg("C29", [mon("hydro", "hv_det_emb")],
    technique="runtime monitor: " + _CORPUS + "; plain-Rust iterator reference for output order, cross-key interleaving and key-deletion metamorphic checks",
    text="36 flows typed TotalOrder or keyed (stateless maps, enumerate, scan, limit, unique, chain, join-half, "
         "anti_join, cross_singleton, threshold; keyed map/filter/flat_map/enumerate/scan/limit/get/"
         "filter_key_not_in): under every tick partition of 600/6000 random inputs (<= 6 items) and random partitions of "
         "60/500 30-item inputs the emitted sequence (per key for keyed streams, observed through "
         "entries_partially_ordered) equals a reference computed with Rust iterators; for keyed flows every "
         "interleaving of different keys that keeps per-key order (<= 90 per input) x every partition leaves all "
         "per-key sequences unchanged, and deleting all other keys leaves a key's sequence unchanged.",
    note="anti_join's reference is only checked on inputs without duplicate rows (its documentation is ambiguous "
         "about duplicates); cross-key emission order is deliberately not constrained.")

reg("C32", [mon("hydro", "hv_det_emb")],
    technique="runtime monitor: " + _CORPUS + "; every admissible input order / adjacent duplication crossed with tick partitions",
    text="One flow per assume_ordering_trusted / assume_retries_trusted call site of hydro_lang (max, min, first, "
         "last, count, is_empty, value_counts, repeat_with_keys, keyed-singleton into_singleton / get_max_key / "
         "key_count on both the bounded and the snapshot path, weaken_ordering / weaken_retries / "
         "make_totally_ordered / make_exactly_once on streams and keyed streams), top-level and tick-scoped, "
         "input weakened to NoOrder and/or AtLeastOnce as far as the operator's signature accepts. NoOrder: all "
         "permutations of <= 5 items; AtLeastOnce: all 2^n adjacent-duplication masks; keyed-singleton accessors "
         "fed from ordered keyed input: all cross-key interleavings; each crossed with tick partitions of the "
         "transformed input (tick-scoped flows: reordering/duplication inside each batch of a fixed partition). "
         "The result must equal the plain run and the reference; count()'s per-tick history must not depend on "
         "the order either.",
    note="Duplication is modelled as adjacent retries only (weakest retry model). The only call site not covered is "
         "the one inside sliced/mod.rs tests. Inputs are i64 with small domains so ties are frequent.")

reg("C33", [mon("hydro", "hv_det_emb")],
    technique="runtime monitor: " + _CORPUS + "; per-tick snapshots judged against the collection type's monotonicity / boundedness marker",
    text="11 flows producing Monotonic singletons (count, fold with a monotone proof), a Bounded top-level "
         "singleton, MonotonicValue (value_counts, keyed fold with a monotone proof), MonotonicKeys (keyed "
         "fold/reduce, map over MonotonicValue) and BoundedValue (per-key first, fold_early_stop; sampled through "
         "into_singleton and through entries()) keyed singletons are snapshotted every tick under 40 000 (quick) / "
         "400 000 (thorough) random inputs (1-30 items, 2-5 keys) and random tick partitions with empty ticks; "
         "demanded: keys never disappear, monotone values never decrease, bounded values never change, a "
         "bounded entry is emitted once - exactly what each type marker promises - and the final sample equals "
         "the reference.",
    note="'Never decreases' is judged with the integer order of the sampled values (the corpus uses counts and "
         "running maxima). Snapshots are taken once per tick; changes inside a tick are not visible.")
