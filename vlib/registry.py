"""Property -> stages table for bin/check. A stage is one of
  {"kind":"monitor","ws":..,"pkg":..,"args":[..],"tiers":("quick","thorough"),"timeout":s}
  {"kind":"miri","ws":..,"pkg":..,"shards":{"quick":n,"thorough":m},"many_seeds":{..},"tiers":(..)}
  {"kind":"custom","func":"module:function","tiers":(..)}
"""

def mon(ws, pkg, args=(), tiers=("quick", "thorough"), timeout=None, binname=None):
    return {"kind": "monitor", "ws": ws, "pkg": pkg, "args": list(args), "tiers": tiers,
            "timeout": timeout, "binname": binname}


def miri(ws, pkg, shards_quick=1, shards_thorough=8, tiers=("quick", "thorough"), many_seeds=None,
         args=(), binname=None):
    return {"kind": "miri", "ws": ws, "pkg": pkg, "shards": {"quick": shards_quick, "thorough": shards_thorough},
            "tiers": tiers, "many_seeds": many_seeds, "args": list(args), "binname": binname}


def cargotest(ws, pkg, test, tiers=("quick", "thorough"), timeout=None, env=None):
    """A monitor hosted in a #[test] (needed for simulator-driven checks): runs
    `cargo test -p pkg --release -- <test> --exact --nocapture` with VERIF_PROP/TIER/SEED in the env."""
    return {"kind": "cargotest", "ws": ws, "pkg": pkg, "test": test, "tiers": tiers, "timeout": timeout,
            "env": env or {}}


def custom(func, tiers=("quick", "thorough")):
    return {"kind": "custom", "func": func, "tiers": tiers}


A_MODEL = "the harness's reference models/oracles are themselves correct (they are small, independent and written from the documentation)"
A_REACH = "only code paths the generated workloads reach are judged; evidence counts what was observed"

PROPS = {}
EXTRA_STAGES = {}


def add_stage(pid, stage, assumptions=()):
    """Append a stage to a property that another fragment registers (e.g. the simulator half of a
    property whose production half lives in another crate). Merged by vlib/props.py after all
    fragments are loaded."""
    EXTRA_STAGES.setdefault(pid, []).append((stage, list(assumptions)))


def reg(pid, stages, level="exploration", assumptions=(), technique="", text="", note="", ref="", engine=""):
    PROPS[pid] = {"stages": stages, "level": level, "assumptions": [A_MODEL, A_REACH] + list(assumptions),
                  "technique": technique, "text": text, "note": note, "ref": ref or ("DESIGN.md §3 " + pid),
                  "engine": engine or (stages[0].get("pkg") or stages[0].get("func", ""))}
