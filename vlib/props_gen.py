from .registry import reg, custom, add_stage

reg("C41", [custom("vlib.drv_gen:run_c41")],
    engine="hv_gen_emb",
    technique="runtime monitor of the compiler: randomly composed, well-typed-by-construction Hydro programs pushed "
              "through the production generate_embedded (IR emission + partition_graph) and rustc; outcome classified "
              "by where the diagnostic is located",
    text="Each run generates 40 (quick) / 300 (thorough) Hydro programs from a typed combinator grammar (about 70 operators "
         "over Stream/KeyedStream/Singleton/Optional/KeyedSingleton x Bounded/Unbounded x TotalOrder/NoOrder x "
         "ExactlyOnce/AtLeastOnce, top-level and in-tick, tees, tick cycles, forward references, up to three processes "
         "connected by bincode network hops), compiles each with the real code generator under catch_unwind and compiles "
         "the emitted Rust. A panic in generate_embedded/partitioning or a rustc error inside the generated code is a "
         "violation with the program text as the replayable case; a rustc error in the Hydro-level source means the "
         "grammar was wrong and only excludes that program (too many exclusions make the run inconclusive).",
    note="Programs are samples of the grammar (operator coverage matrix is in the evidence), not all Hydro programs; "
         "clusters, external ports, atomic regions and sliced! blocks are not generated; the simulator builder is not "
         "exercised by this check; 'well-typed' is decided by rustc on the annotated Hydro-level source.")

add_stage("C42", custom("vlib.drv_gen:run_c42"),
          assumptions=["Hydro half: determinism is compared across 3 OS processes and 2 runs per process on this machine "
                       "(different std RandomState seeds and heap layouts), for the embedded backend; the trybuild crate "
                       "name is a SHA-256 of the same prettyplease text and is therefore covered by text equality"])

add_stage("C28", custom("vlib.drv_gen:run_c28"),
          assumptions=["generated-program stage: only generated programs without any nondet! parameter are in scope; "
                       "observers (assume_ordering / sample_eager wrappers) are outside the judged program"])
