from .registry import reg, mon, miri

reg("C27",
    [mon("rt", "mon_wake"),
     miri("rt", "mon_wake", shards_quick=1, shards_thorough=4, many_seeds={"quick": 8, "thorough": 64})],
    technique="runtime monitor: the real Dfir runner polled by a hand-written executor; a wake is fired "
              "exactly in every window of the runner loop (hook points, inside the tick, idle, inside "
              "Waker::wake) for all single and paired windows, plus cross-thread wake stress and Miri "
              "many-seeds schedules; judged by 'a tick started after the wake' at executor quiescence",
    text="Every (program point | in-tick | idle | between calls | mid-suspension) x occurrence 0..3 window, "
         "singly and in all unordered pairs, for 16 runner variants (run(), repeated run_available(), "
         "while-run_tick driver; 26 452 enumerated executions + 6 000 / 300 000 sampled triples), and 100 000 "
         "(quick) / 3 000 000 (thorough) wakes from 1-2 real threads racing run(); a thin slice of the same "
         "program (80 cross-thread wakes per execution) under Miri with 8 / 4x64 scheduler+weak-memory seeds. Each wake must be followed by the start of a tick before "
         "the runner comes to rest; never wall-clock.",
    note="Windows inside WakeState::wake_by_ref (between the flag store and the task wake) are reached "
         "deterministically only through the executor's own Waker (idle runner); otherwise only by the "
         "thread stress / Miri schedules. The run_tick-driver variant judges run_tick's documented result "
         "('checks external events'), which run()/run_available() themselves ignore.")
