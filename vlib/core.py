"""Core plumbing for bin/check: builds, watchdogged runs, JSON-line parsing, verdicts, evidence,
known-finding matching. Python stdlib only."""
import hashlib
import json
import os
import shutil
import subprocess
import sys
import time

VERIF = os.path.dirname(os.path.dirname(os.path.abspath(__file__)))
BUILD = os.path.join(VERIF, ".build")
GUARD_CFG = "--cfg hydro_project_hydro_verif"
TOOLCHAIN = "+1.96.0"
NIGHTLY = "+nightly"


def repo_path():
    return os.path.abspath(os.environ.get("VERIF_REPO", "/repo"))


def base_env():
    env = dict(os.environ)
    env["CARGO_NET_OFFLINE"] = "true"
    env["CARGO_TERM_COLOR"] = "never"
    env.setdefault("RUST_BACKTRACE", "0")
    env.pop("RUSTC_WRAPPER", None)
    return env


def log(msg):
    sys.stderr.write(msg + "\n")
    sys.stderr.flush()


class Inconclusive(Exception):
    pass


# ------------------------------------------------------------------------------------------------
# workspaces


def workspace_dir(ws):
    """Return (source dir to run cargo in, target dir). For the default /repo this is the committed
    workspace; for VERIF_REPO=<other> a shadow copy with rewritten path dependencies is made under
    .build/alt-<hash>/ (used for mutation validation against scratch worktrees)."""
    src = os.path.join(VERIF, "engines", ws)
    repo = repo_path()
    if repo == "/repo":
        tgt = os.path.join(BUILD, ws)
        wsdir = src
    else:
        h = hashlib.sha1(repo.encode()).hexdigest()[:10]
        root = os.path.join(BUILD, "alt-" + h)
        wsdir = os.path.join(root, ws)
        tgt = os.path.join(root, ws + "-target")
        os.makedirs(wsdir, exist_ok=True)
        # mirror the workspace: copy files (small), rewriting /repo/ in every Cargo.toml
        for dirpath, dirnames, filenames in os.walk(src):
            dirnames[:] = [d for d in dirnames if d not in ("target", ".build")]
            rel = os.path.relpath(dirpath, src)
            os.makedirs(os.path.join(wsdir, rel), exist_ok=True)
            for fn in filenames:
                if fn == "Cargo.lock":
                    continue
                s = os.path.join(dirpath, fn)
                d = os.path.join(wsdir, rel, fn)
                if fn == "Cargo.toml" or fn.endswith(".repo-path"):
                    txt = open(s).read().replace('"/repo/', '"' + repo + "/")
                    if not os.path.exists(d) or open(d).read() != txt:
                        open(d, "w").write(txt)
                else:
                    if not os.path.exists(d) or open(d, "rb").read() != open(s, "rb").read():
                        shutil.copy2(s, d)
    lock = os.path.join(wsdir, "Cargo.lock")
    if not os.path.exists(lock):
        shutil.copy(os.path.join(repo, "Cargo.lock"), lock)
    return wsdir, tgt


def run_logged(cmd, cwd, env, logf, timeout):
    """Run cmd, append combined stderr to logf, return (rc, stdout_text). Raises Inconclusive on
    watchdog expiry."""
    with open(logf, "a") as lf:
        lf.write("\n$ " + " ".join(cmd) + "\n")
        lf.flush()
        t0 = time.time()
        p = subprocess.Popen(cmd, cwd=cwd, env=env, stdout=subprocess.PIPE, stderr=lf, text=True)
        try:
            out, _ = p.communicate(timeout=timeout)
        except subprocess.TimeoutExpired:
            p.kill()
            p.communicate()
            raise Inconclusive("watchdog %ds fired for: %s" % (timeout, " ".join(cmd[:6])))
        lf.write("[rc=%d %.1fs]\n" % (p.returncode, time.time() - t0))
    return p.returncode, out


def cargo_build(ws, pkg, logf, miri=False, extra_env=None, bins=None):
    wsdir, tgt = workspace_dir(ws)
    env = base_env()
    env["RUSTFLAGS"] = (env.get("VERIF_EXTRA_RUSTFLAGS", "") + " " + GUARD_CFG).strip()
    if extra_env:
        env.update(extra_env)
    if miri:
        env["CARGO_TARGET_DIR"] = tgt + "-miri"
        return wsdir, env
    env["CARGO_TARGET_DIR"] = tgt
    cmd = ["cargo", TOOLCHAIN, "build", "--release", "--offline", "-p", pkg]
    rc, out = run_logged(cmd, wsdir, env, logf, timeout=3600)
    if rc != 0:
        raise Inconclusive("build of %s/%s failed (see %s)" % (ws, pkg, logf))
    return wsdir, env


def bin_path(ws, name):
    _, tgt = workspace_dir(ws)
    return os.path.join(tgt, "release", name)


# ------------------------------------------------------------------------------------------------
# monitor output parsing


def parse_lines(out):
    summaries, violations = [], []
    for line in out.splitlines():
        line = line.strip()
        if not line.startswith("{"):
            continue
        try:
            o = json.loads(line)
        except Exception:
            continue
        if o.get("t") == "summary":
            summaries.append(o)
        elif o.get("t") == "violation":
            violations.append(o)
    return summaries, violations


def run_monitor(ws, pkg, prop, tier, seed, logf, args=(), timeout=1800, binname=None, replay=None):
    """Build and run one native monitor stage. Returns (summaries, violations)."""
    wsdir, env = cargo_build(ws, pkg, logf)
    exe = bin_path(ws, binname or pkg)
    cmd = [exe, "--prop", prop, "--tier", tier, "--seed", str(seed)] + list(args)
    if replay:
        cmd += ["--replay", replay]
    rc, out = run_logged(cmd, wsdir, env, logf, timeout)
    with open(logf, "a") as lf:
        lf.write(out[-20000:])
    s, v = parse_lines(out)
    if rc != 0 and not v:
        raise Inconclusive("monitor %s exited rc=%d (see %s)" % (pkg, rc, logf))
    if not s and not replay:
        raise Inconclusive("monitor %s printed no summary (see %s)" % (pkg, logf))
    return s, v


def run_cargotest(ws, pkg, test, prop, tier, seed, logf, timeout=3600, extra_env=None, replay=None):
    """Run a #[test]-hosted monitor (simulator-driven checks). The test prints the usual JSON lines."""
    wsdir, tgt = workspace_dir(ws)
    env = base_env()
    env["RUSTFLAGS"] = GUARD_CFG
    env["CARGO_TARGET_DIR"] = tgt
    env["VERIF_PROP"] = prop
    env["VERIF_TIER"] = tier
    env["VERIF_SEED"] = str(seed)
    env["VERIF_REPLAY"] = replay or ""
    env["BOLERO_RANDOM_SEED"] = str(seed)
    if extra_env:
        env.update(extra_env)
    cmd = ["cargo", TOOLCHAIN, "test", "--release", "--offline", "-p", pkg, "--lib", "--", test, "--exact",
           "--nocapture", "--test-threads", "1"]
    # The simulator builds every flow's dylib to ONE fixed file under the target dir when RUSTFLAGS is
    # set; two simulator stages running at once would load each other's dylib. Serialise them.
    import fcntl
    os.makedirs(tgt, exist_ok=True)
    with open(os.path.join(tgt, ".cargotest.lock"), "w") as lockf:
        fcntl.flock(lockf, fcntl.LOCK_EX)
        try:
            rc, out = run_logged(cmd, wsdir, env, logf, timeout)
        finally:
            fcntl.flock(lockf, fcntl.LOCK_UN)
    with open(logf, "a") as lf:
        lf.write(out[-20000:])
    s, v = parse_lines(out)
    if "running 0 tests" in out and not s:
        raise Inconclusive("test %s not found in %s" % (test, pkg))
    if rc != 0 and not v:
        raise Inconclusive("cargo test %s::%s exited rc=%d without a violation line (see %s)" % (pkg, test, rc, logf))
    if not s and not replay:
        raise Inconclusive("test %s printed no summary (see %s)" % (test, logf))
    return s, v


def run_miri(ws, pkg, prop, seed, logf, shards=4, args=(), timeout=2400, many_seeds=None,
             binname=None):
    """Run a monitor under Miri with the 'miri' budget, sharded over processes. Any Miri
    diagnostic (UB, data race, leak, abort) is a violation of `prop`. Returns (summaries, violations)."""
    wsdir, env = cargo_build(ws, pkg, logf, miri=True)
    flags = "-Zmiri-disable-isolation"
    if many_seeds:
        flags += " -Zmiri-many-seeds=0..%d" % many_seeds
    env["MIRIFLAGS"] = flags
    base = ["cargo", NIGHTLY, "miri", "run", "--offline", "-q", "-p", pkg]
    if binname:
        base += ["--bin", binname]
    # warm build serially (cargo lock), then shards in parallel
    rc, out = run_logged(base + ["--", "--prop", "NONE", "--tier", "miri"], wsdir, env, logf, timeout)
    if rc != 0:
        raise Inconclusive("miri build/smoke of %s failed rc=%d (see %s)" % (pkg, rc, logf))
    procs = []
    for i in range(shards):
        cmd = base + ["--", "--prop", prop, "--tier", "miri", "--seed", str(seed),
                      "--shard", "%d/%d" % (i, shards)] + list(args)
        errf = open(logf + ".miri%d" % i, "w")
        procs.append((i, cmd, errf, subprocess.Popen(cmd, cwd=wsdir, env=env, stdout=subprocess.PIPE,
                                                     stderr=errf, text=True)))
    summaries, violations = [], []
    deadline = time.time() + timeout
    for i, cmd, errf, p in procs:
        try:
            out, _ = p.communicate(timeout=max(1, deadline - time.time()))
        except subprocess.TimeoutExpired:
            for _, _, _, q in procs:
                q.kill()
            raise Inconclusive("miri shard %d watchdog fired" % i)
        errf.close()
        err = open(logf + ".miri%d" % i).read()
        with open(logf, "a") as lf:
            lf.write("\n$ " + " ".join(cmd) + "\n[rc=%d]\n" % p.returncode + err[-6000:] + out[-4000:])
        s, v = parse_lines(out)
        summaries += s
        violations += v
        if p.returncode != 0:
            kind = "miri-diagnostic"
            first = ""
            for ln in err.splitlines():
                if ln.startswith("error"):
                    first = ln.strip()
                    break
            if "Undefined Behavior" in err:
                kind = "miri-ub"
            elif "Data race" in err or "data race" in err:
                kind = "miri-data-race"
            elif "memory leaked" in err or "leaked" in first:
                kind = "miri-leak"
            elif "unsupported operation" in err:
                raise Inconclusive("miri unsupported operation in %s shard %d: %s" % (pkg, i, first))
            elif not first:
                raise Inconclusive("miri shard %d of %s exited rc=%d without diagnostic" % (i, pkg, p.returncode))
            violations.append({"t": "violation", "prop": prop,
                               "sig": "%s|%s|%s" % (prop, pkg, kind),
                               "what": first or kind,
                               "case": {"engine": pkg, "mode": "miri", "seed": seed,
                                        "shard": "%d/%d" % (i, shards), "stderr_tail": err[-3000:]}})
        elif not s:
            raise Inconclusive("miri shard %d of %s printed no summary" % (i, pkg))
    for s in summaries:
        s["stage"] = "miri"
    return summaries, violations


# ------------------------------------------------------------------------------------------------
# findings, evidence, verdict


def load_known():
    p = os.path.join(VERIF, "known_findings.json")
    if not os.path.exists(p):
        return []
    return json.load(open(p)).get("findings", [])


def finish(prop, tier, seed, level, summaries, violations, t0, assumptions, inconclusive=None):
    """Merge stage results, write evidence, print verdict lines, return exit code."""
    known = [k for k in load_known() if k.get("property") == prop and k.get("status") == "known"]
    known_sigs = {k["signature"]: k for k in known}
    listed, unlisted = {}, []
    for v in violations:
        if v["sig"] in known_sigs:
            listed.setdefault(v["sig"], v)
        else:
            unlisted.append(v)

    evaluations = sum(int(s.get("evaluations", 0)) for s in summaries)
    distinct = sum(int(s.get("distinct_nontrivial", 0)) for s in summaries)
    samples = []
    for s in summaries:
        for x in s.get("samples", [])[:4]:
            samples.append(x)
    rule = " || ".join(dict.fromkeys(s.get("rule", "") for s in summaries if s.get("rule")))
    exhaustive = bool(summaries) and any(s.get("exhaustive") for s in summaries)
    minobs = []
    for s in summaries:
        if not s.get("min_obs_ok", True):
            minobs += s.get("min_obs_reason", ["minimum observation not reached"])
    stages = []
    for s in summaries:
        stages.append({"stage": s.get("stage", "native"), "engine": s.get("engine", ""),
                       "evaluations": s.get("evaluations", 0),
                       "distinct_nontrivial": s.get("distinct_nontrivial", 0),
                       "exhaustive": s.get("exhaustive", False), "extra": s.get("extra", {})})
    total_viol = sum(int(s.get("violations", 0)) for s in summaries)
    total_viol = max(total_viol, len(violations))

    if inconclusive is None and minobs:
        inconclusive = "minimum observation not reached: " + "; ".join(minobs)
    if inconclusive is None and not samples:
        inconclusive = "no stage offered a sample case (evidence would not show what was explored)"
    if inconclusive is None and (evaluations < 1 or distinct < 2):
        inconclusive = "too few observations (evaluations=%d distinct=%d)" % (evaluations, distinct)

    ev = {
        "property_id": prop, "tier": tier, "seed": int(seed), "level": level,
        "coverage": {
            "evaluations": evaluations, "distinct_nontrivial": distinct, "rule": rule,
            "samples": samples[:12], "exhaustive": exhaustive, "stages": stages,
            "verdict": ("inconclusive" if inconclusive else ("violated" if unlisted else "held")),
            "known_findings_reported": sorted(listed.keys()),
        },
        "assumptions": assumptions,
        "wall_s": round(time.time() - t0, 2),
        "violations": len(unlisted) if not inconclusive or unlisted else 0,
    }
    if inconclusive:
        ev["coverage"]["inconclusive_reason"] = inconclusive
    outroot = VERIF
    if repo_path() != "/repo":
        # runs against a scratch worktree (mutation validation) never touch the committed evidence
        outroot = os.path.join(BUILD, "alt-" + hashlib.sha1(repo_path().encode()).hexdigest()[:10])
    os.makedirs(os.path.join(outroot, "evidence"), exist_ok=True)
    evp = os.path.join(outroot, "evidence", prop + ".json")
    tmp = evp + ".tmp"
    json.dump(ev, open(tmp, "w"), indent=1, sort_keys=False, default=str)
    os.replace(tmp, evp)

    for sig, v in sorted(listed.items()):
        print("KNOWN-FINDING: property=%s %s (%s)" % (prop, known_sigs[sig].get("what", v["what"]), sig))
    rc = 0
    seen_sig = set()
    os.makedirs(os.path.join(outroot, "replay"), exist_ok=True)
    for v in unlisted:
        if v["sig"] in seen_sig:
            continue
        seen_sig.add(v["sig"])
        h = hashlib.sha1(json.dumps(v, sort_keys=True, default=str).encode()).hexdigest()[:10]
        rp = os.path.join(outroot, "replay", "%s-%s.json" % (prop, h))
        json.dump({"prop": prop, "sig": v["sig"], "what": v["what"], "case": v.get("case"),
                   "tier": tier, "seed": int(seed)}, open(rp, "w"), indent=1, default=str)
        print("VIOLATION property=%s replay=%s" % (prop, rp))
        print("  signature: %s" % v["sig"])
        print("  what: %s" % str(v["what"])[:600])
        rc = 1
    if rc == 0 and inconclusive:
        print("INCONCLUSIVE property=%s reason=%s" % (prop, inconclusive))
        rc = 2
    if rc == 0:
        print("HELD property=%s tier=%s seed=%s evaluations=%d distinct_nontrivial=%d wall=%.1fs"
              % (prop, tier, seed, evaluations, distinct, time.time() - t0))
    sys.stdout.flush()
    return rc
