"""Custom stages for the generated-Hydro-program checks (engine hydro, crates hv_gen_flows + hv_gen_emb):

  run_c41  -- C41 "every well-typed Hydro flow compiles to a valid dataflow" (primary)
  run_c42  -- Hydro half of C42 "code generation is deterministic"
  run_c28  -- generated-program stage of C28 "safe top-level code is eventually deterministic"

All three share `prepare()`: run the typed grammar generator for (seed, N), write the generated sources,
build `hv_gen_emb` (whose build.rs runs the production `generate_embedded` per program under catch_unwind),
and classify every program:

  ok                 generate_embedded succeeded and rustc accepted the generated code
  gen_panic          generate_embedded / partitioning panicked                       -> C41 violation
  rustc_generated    rustc error located in $OUT_DIR/<flow>.rs (generated code)      -> C41 violation
  generator_bug      rustc error located in hv_gen_flows/src/generated.rs or in the build block: the
                     *grammar* produced an ill-typed Hydro program -> excluded, counted, never a violation
  construct_panic    the program type-checked but a hydro_lang API call panicked while the flow function was
                     building the IR (before generate_embedded). The grammar satisfies the documented
                     preconditions (same location/tick for operands, no synchronous forward-reference
                     cycle), so this is an internal failure of the front end              -> C41 violation
  driver_bug         rustc error in the harness's own driver shim -> excluded from C28, counted
"""
import fcntl
import hashlib
import importlib.util
import json
import os
import re
import shutil
import subprocess
import time

from . import core

HY = os.path.join(core.VERIF, "engines", "hydro")
GEN_PY = os.path.join(HY, "hv_gen_flows", "gen", "gen.py")
F_FLOWS = os.path.join(HY, "hv_gen_flows", "src", "generated.rs")
F_BUILD = os.path.join(HY, "hv_gen_emb", "gen_build.rs")
F_DESC = os.path.join(HY, "hv_gen_emb", "gen_desc.json")
N_PROGRAMS = {"quick": 40, "thorough": 300}
BATCH = 60          # programs per build (keeps rustc memory/time per crate bounded in the thorough tier)
MAX_ROUNDS = 10


def _gen():
    spec = importlib.util.spec_from_file_location("hv_gen", GEN_PY)
    m = importlib.util.module_from_spec(spec)
    spec.loader.exec_module(m)
    return m


def _write(path, text):
    if not os.path.exists(path) or open(path).read() != text:
        tmp = path + ".tmp"
        open(tmp, "w").write(text)
        os.replace(tmp, path)


class _Lock:
    """The generated sources live in the engine's source tree: one generated-program stage at a time."""

    def __enter__(self):
        os.makedirs(core.BUILD, exist_ok=True)
        self.f = open(os.path.join(core.BUILD, "hydro-gen.lock"), "w")
        fcntl.flock(self.f, fcntl.LOCK_EX)
        return self

    def __exit__(self, *a):
        fcntl.flock(self.f, fcntl.LOCK_UN)
        self.f.close()


_REPO_DIRS = ["hydro_lang", "hydro_std", "dfir_lang", "dfir_rs", "dfir_pipes", "dfir_macro", "lattices", "variadics",
              "sinktools", "hydro_deploy/hydro_deploy_integration", "Cargo.lock"]


def _repo_state():
    """identity of the code under test that can influence these checks: tree hashes of the crates the
    generated programs are built from + uncommitted changes in them"""
    repo = core.repo_path()
    try:
        trees = subprocess.run(["git", "-C", repo, "rev-parse"] + ["HEAD:" + d for d in _REPO_DIRS],
                               capture_output=True, text=True).stdout
        diff = subprocess.run(["git", "-C", repo, "diff", "HEAD", "--"] + _REPO_DIRS,
                              capture_output=True, text=True).stdout
    except Exception:
        trees, diff = "?", ""
    return hashlib.sha1((repo + trees + diff).encode()).hexdigest()[:12]


_ERR_RE = re.compile(r"^(error(?:\[(E\d+)\])?: .*)$")
_LOC_RE = re.compile(r"^\s*--> (.+?):(\d+):(\d+)\s*$")


def _parse_rustc_errors(text):
    """[(file, line, code, message)] for every `error...` diagnostic with a primary location."""
    out = []
    lines = text.splitlines()
    i = 0
    while i < len(lines):
        m = _ERR_RE.match(lines[i])
        if m and not lines[i].startswith("error: could not compile") and not lines[i].startswith("error: aborting"):
            msg, code = m.group(1), m.group(2) or ""
            j = i + 1
            loc = None
            while j < len(lines) and j < i + 12:
                l = _LOC_RE.match(lines[j])
                if l:
                    loc = (l.group(1), int(l.group(2)))
                    break
                if _ERR_RE.match(lines[j]):
                    break
                j += 1
            if loc:
                # keep a short excerpt of the diagnostic
                excerpt = "\n".join(lines[i:min(len(lines), i + 14)])
                out.append((loc[0], loc[1], code, msg, excerpt))
        i += 1
    return out


def _blame(errors, flow_map, build_map):
    """name -> (class, error code, message, excerpt) for the first attributable error of each program."""
    blamed = {}
    unattributed = []
    for (f, line, code, msg, excerpt) in errors:
        name, cls = None, None
        fn = f.replace("\\", "/")
        m = re.search(r"/out/(flow_\d+)\.rs$", fn)
        if fn.endswith("hv_gen_flows/src/generated.rs"):
            cls = "generator_bug"
            for (a, b, n) in flow_map:
                if a <= line <= b:
                    name = n
        elif fn.endswith("hv_gen_emb/gen_build.rs"):
            cls = "generator_bug"
            for (a, b, n) in build_map:
                if a <= line <= b:
                    name = n
        elif m:
            cls, name = "rustc_generated", m.group(1)
        elif fn.endswith("/out/drivers.rs"):
            cls = "driver_bug"
            try:
                src = open(f if os.path.isabs(f) else os.path.join(core.workspace_dir("hydro")[0], f)).read().splitlines()
                for k in range(min(line, len(src)) - 1, -1, -1):
                    mm = re.match(r"// @flow (flow_\d+)", src[k])
                    if mm:
                        name = mm.group(1)
                        break
            except OSError:
                pass
        if name:
            blamed.setdefault(name, (cls, code, msg, excerpt))
        else:
            unattributed.append((f, line, msg))
    return blamed, unattributed


def _build_map(build_text):
    out = []
    start, name = None, None
    for i, l in enumerate(build_text.splitlines(), 1):
        m = re.match(r'run_flow\(st, "(flow_\d+)"', l)
        if m:
            start, name = i, m.group(1)
        if l.startswith("});") and name:
            out.append((start, i, name))
            name = None
    return out


def _build_once(descs, seed, n, logf):
    """write sources for `descs`, build; returns (ok, log text of this build, flow_map, build_map)"""
    g = _gen()
    flows, build, desc, flow_map = g.render_files(descs, seed, n)
    # the harness keeps the program texts next to the descriptions (self-contained replay cases)
    full = json.loads(desc)
    for d, src in zip(full, descs):
        d["flow_text"] = src["flow_text"]
        d["build_text"] = src["build_text"]
    _write(F_FLOWS, flows)
    _write(F_BUILD, build)
    _write(F_DESC, json.dumps(full, indent=1) + "\n")
    off = os.path.getsize(logf) if os.path.exists(logf) else 0
    try:
        core.cargo_build("hydro", "hv_gen_emb", logf)
        ok = True
    except core.Inconclusive:
        ok = False
    with open(logf, errors="replace") as f:
        f.seek(off)
        text = f.read()
    return ok, text, flow_map, _build_map(build)


def _dump_status(logf):
    wsdir, _ = core.workspace_dir("hydro")
    exe = core.bin_path("hydro", "hv_gen_emb")
    rc, out = core.run_logged([exe, "--dump-status"], wsdir, core.base_env(), logf, 120)
    if rc != 0:
        raise core.Inconclusive("hv_gen_emb --dump-status failed (see %s)" % logf)
    for line in out.splitlines():
        if line.startswith("{"):
            return json.loads(line)
    raise core.Inconclusive("hv_gen_emb --dump-status printed nothing")


def _api_short(api):
    """`<hydro_lang::live_collections::singleton::Singleton<T,L,B> as ...::ZipResult<..>>::make` -> without crate paths"""
    if not api:
        return "?"
    api = api.replace("hydro_lang::live_collections::", "").replace("hydro_lang::", "")
    api = re.sub(r"\b(?:stream|singleton|optional|keyed_stream|keyed_singleton)::(?=[A-Z])", "", api)
    return api


def _msg_class(msg):
    """stable class of a panic message: source file + first line (+ first DFIR `Error:` line for collected
    diagnostics), numbers blanked"""
    m = re.match(r"panicked at (\S+?):\d+:\d+:\s*(.*)", msg, re.S)
    where, what = (m.group(1), m.group(2)) if m else ("?", msg)
    where = where.split("/src/")[-1]
    lines = [l for l in what.strip().splitlines() if l.strip()]
    first = lines[0] if lines else ""
    if "Diagnostics" in first:
        errs = [l for l in lines[1:] if l.startswith("Error:")]
        first = first.split("Diagnostics")[0].strip(" .:") + ": " + (errs[0] if errs else "")
    first = first.split(" Cycle: ")[0]
    if first.startswith("assertion"):
        # collection-kind consistency assertions: keep collection kind + bound of both sides
        sides = re.findall(r"(left|right): (\w+) \{ bound: (\w+)", what)
        if sides:
            first += " (" + " vs ".join("%s %s" % (k, b) for _, k, b in sides) + ")"
    first = re.sub(r"\d+", "N", first)
    return "%s: %s" % (where, first[:140])


def prepare(descs, seed, n, logf, use_cache=True):
    """Build the given programs, excluding (and classifying) those that cannot be built.
    Returns dict name -> verdict {cls, code, message, detail}; the binary left behind contains
    exactly the programs whose verdict is 'ok' (or 'driver_bug' minus their driver)."""
    key = hashlib.sha1(json.dumps([seed, n, _gen().GEN_VERSION, _repo_state(),
                                   [d["text_hash"] for d in descs]]).encode()).hexdigest()[:16]
    cdir = os.path.join(core.BUILD, "hydro-gen-cache")
    os.makedirs(cdir, exist_ok=True)
    cfile = os.path.join(cdir, key + ".json")
    verdict = {}
    if use_cache and os.path.exists(cfile):
        verdict = json.load(open(cfile))
    active = [d for d in descs if d["name"] not in verdict or verdict[d["name"]]["cls"] in ("ok", "gen_panic", "construct_panic")]
    for rnd in range(MAX_ROUNDS):
        ok, text, flow_map, build_map = _build_once(active, seed, n, logf)
        if ok:
            break
        blamed, unattributed = _blame(_parse_rustc_errors(text), flow_map, build_map)
        if not blamed:
            raise core.Inconclusive("build of generated programs failed with errors that cannot be attributed to a "
                                    "program (%s) -- see %s" % ("; ".join("%s:%s %s" % u for u in unattributed[:3]), logf))
        for name, (cls, code, msg, excerpt) in blamed.items():
            verdict[name] = {"cls": cls, "code": code, "message": msg, "detail": excerpt[-1500:]}
        active = [d for d in active if d["name"] not in blamed]
    else:
        raise core.Inconclusive("generated programs still fail to build after %d exclusion rounds" % MAX_ROUNDS)
    st = _dump_status(logf)
    for d in active:
        s = st["status"].get(d["name"])
        if s is None:
            verdict[d["name"]] = {"cls": "missing", "code": "", "message": "no status recorded by build.rs", "detail": ""}
        elif s["status"] == "ok":
            verdict[d["name"]] = {"cls": "ok", "code": "", "message": "", "detail": "", "code_hash": s["code_hash"],
                                  "code_bytes": s["code_bytes"]}
        else:
            cls = "construct_panic" if s.get("stage", 0) == 0 else "gen_panic"
            verdict[d["name"]] = {"cls": cls, "code": "stage%d" % s.get("stage", 0), "message": s["message"],
                                  "detail": s["message"][-1500:], "api": s.get("api", "")}
    json.dump(verdict, open(cfile, "w"))
    return verdict, st


def _slim(d):
    return {k: v for k, v in d.items() if k not in ("flow_text", "build_text")}


def _case(prop, d, extra=None):
    c = {"engine": "hv_gen_emb", "prop": prop, "program": d["name"], "desc": d}
    if extra:
        c.update(extra)
    return c


def _summary(prop, evaluations, distinct, rule, samples, extra, min_fail, nviol, stage):
    return {"t": "summary", "prop": prop, "evaluations": evaluations, "distinct_nontrivial": distinct, "rule": rule,
            "samples": samples[:6], "exhaustive": False, "min_obs_ok": not min_fail, "min_obs_reason": min_fail,
            "extra": extra, "violations": nviol, "stage": stage, "engine": "hv_gen_emb"}


def _batches(descs):
    return [descs[i:i + BATCH] for i in range(0, len(descs), BATCH)]


def _replay_descs(replay, prop):
    case = json.load(open(replay)).get("case") or {}
    if case.get("engine") != "hv_gen_emb":
        return None, None
    d = case["desc"]
    return case, [d]


# ------------------------------------------------------------------------------------------------
# C41


RULE_C41 = ("Programs come from a typed combinator grammar (hv_gen_flows/gen/gen.py) that tracks element type, "
            "collection kind, location/tick, boundedness, ordering, retries and forward-reference dependencies, so each "
            "is well-typed in Hydro's types by construction (every let is annotated with the computed type; a mismatch is "
            "a rustc error in the Hydro-level source and is classified as a grammar defect, never as a finding). Each "
            "program is compiled by the production generate_embedded (IR emission + partition_graph per location) under "
            "catch_unwind, and the emitted Rust is compiled by rustc. Judged: no panic/diagnostic from the generator, "
            "rustc accepts the generated code. A small fixed corpus of hand-written minimal programs (one per defect met so "
            "far) is compiled along with the random ones. Non-trivial = distinct program text with >= 3 distinct operators.")


def _c41_judge(descs, verdict, viols, counters, opcov, samples, distinct):
    judged = 0
    for d in descs:
        v = verdict.get(d["name"], {"cls": "missing", "message": "", "code": "", "detail": ""})
        cls = v["cls"]
        counters["programs_" + cls] = counters.get("programs_" + cls, 0) + 1
        if d.get("probe"):
            counters.setdefault("corpus", {})[d["probe"]] = cls
        if cls in ("ok", "gen_panic", "construct_panic", "rustc_generated"):
            judged += 1
            good = cls == "ok"
            if len(d["distinct_ops"]) >= 3:
                distinct.add(d["text_hash"])
            for op in d["distinct_ops"]:
                e = opcov.setdefault(op, {"programs": 0, "compiled": 0, "violations": 0})
                e["programs"] += 1
                e["compiled" if good else "violations"] += 1
            for feat, on in (("mode_" + d["mode"], True), ("multi_location", d["nprocs"] > 1),
                             ("tick_cycle", "tick_cycle" in d["ops"]), ("forward_ref", "forward_ref" in d["ops"]),
                             ("runtime_loop", d["has_loop"]), ("tee", "tee" in d["ops"])):
                if on:
                    counters["feature_" + feat] = counters.get("feature_" + feat, 0) + 1
            if cls == "gen_panic":
                viols.append({"t": "violation", "prop": "C41",
                              "sig": "C41|generate_embedded|panic|" + _msg_class(v["message"]),
                              "what": "generate_embedded panicked for well-typed program %s%s: %s"
                                      % (d["name"], " [corpus: %s]" % d["probe"] if d.get("probe") else "", v["message"][:400]),
                              "case": _case("C41", d, {"observed": v["message"][:2000]})})
            elif cls == "construct_panic":
                # the program type-checked, yet building its IR through the public API panicked
                viols.append({"t": "violation", "prop": "C41",
                              "sig": "C41|flow construction|panic|%s|%s" % (_api_short(v.get("api")), _msg_class(v["message"])),
                              "what": "building the IR of well-typed program %s%s panicked in %s (before generate_embedded): %s"
                                      % (d["name"], " [corpus: %s]" % d["probe"] if d.get("probe") else "",
                                         v.get("api") or "?", v["message"][:400]),
                              "case": _case("C41", d, {"observed": v["message"][:2000]})})
            elif cls == "rustc_generated":
                viols.append({"t": "violation", "prop": "C41",
                              "sig": "C41|rustc|error in generated embedded code|" + (v["code"] or "E?"),
                              "what": "rustc rejected the code generated for well-typed program %s: %s" % (d["name"], v["message"][:400]),
                              "case": _case("C41", d, {"observed": v["detail"]})})
            elif len(samples) < 6:
                samples.append({"program": d["name"], "ops": d["distinct_ops"], "outputs": [o["type"] for o in d["outputs"]],
                                "code_bytes": v.get("code_bytes")})
        elif cls in ("generator_bug", "driver_bug"):
            counters.setdefault("generator_bug_messages", [])
            if len(counters["generator_bug_messages"]) < 8:
                counters["generator_bug_messages"].append("%s: %s" % (d["name"], (v["message"] or "")[:200]))
    return judged


def run_c41(prop, tier, seed, logf, replay):
    with _Lock():
        g = _gen()
        viols, counters, opcov, samples, distinct = [], {}, {}, [], set()
        if replay:
            case, descs = _replay_descs(replay, prop)
            if descs is None:
                return [], []
            verdict, _ = prepare(descs, case["desc"].get("gen", {}).get("seed", 0), 1, logf, use_cache=False)
            _c41_judge(descs, verdict, viols, counters, opcov, samples, distinct)
            return [], viols
        n = N_PROGRAMS[tier]
        descs = g.generate(seed, n)
        judged = 0
        for batch in _batches(descs):
            res = _batch_all(batch, seed, n, tier, logf)
            judged += _c41_judge(batch, res["verdict"], viols, counters, opcov, samples, distinct)
        bugs = counters.get("programs_generator_bug", 0) + counters.get("programs_driver_bug", 0) + \
            counters.get("programs_missing", 0)
        min_fail = []
        if judged < 0.8 * n:
            min_fail.append("only %d of %d generated programs could be judged" % (judged, n))
        if bugs * 10 > n:
            min_fail.append("%d of %d programs were excluded as grammar defects (too many)" % (bugs, n))
        if len(opcov) < 40:
            min_fail.append("only %d distinct operators covered" % len(opcov))
        for feat in ("feature_mode_safe", "feature_mode_tick", "feature_multi_location", "feature_tick_cycle",
                     "feature_forward_ref", "feature_tee"):
            if counters.get(feat, 0) < 1:
                min_fail.append("no judged program with " + feat)
        extra = {"counters": counters, "operator_coverage": opcov, "programs_generated": n, "corpus_programs": len(descs) - n,
                 "programs_judged": judged,
                 "generator_version": g.GEN_VERSION}
        return [_summary("C41", judged, len(distinct), RULE_C41, samples, extra, min_fail, len(viols), "codegen")], viols


# ------------------------------------------------------------------------------------------------
# C42 (Hydro half)


RULE_C42 = ("For every generated Hydro program (same grammar as C41) the production generate_embedded is executed in 3 "
            "separate OS processes (the hv_gen_emb build-script executable re-run by hand; std HashMap seeds differ per "
            "process) and twice inside each process, plus once during the build; judged: the prettyplease text of the "
            "generated module is byte-identical in all runs. Non-trivial = distinct program text with >= 3 operators "
            "whose generation succeeded.")


def _c42_emit(descs, verdict, st, logf, nproc):
    """run the generator executable in `nproc` separate processes; returns per program
    {"hashes": [[h1, h2] per process], "diff": first differing line}"""
    info = st["build_info"]
    root = os.path.join(core.BUILD, "hydro-gen-c42", str(os.getpid()))
    shutil.rmtree(root, ignore_errors=True)
    results, procs = [], []
    for i in range(nproc):
        od = os.path.join(root, str(i))
        os.makedirs(od)
        env = core.base_env()
        env.update(info["env"])
        env["OUT_DIR"] = od
        env["HV_GEN_C42"] = "1"
        procs.append((od, subprocess.Popen([info["exe"]], cwd=info["cwd"], env=env, stdout=subprocess.DEVNULL,
                                           stderr=open(logf, "a"))))
    for od, p in procs:
        try:
            p.wait(timeout=1800)
        except subprocess.TimeoutExpired:
            p.kill()
            raise core.Inconclusive("C42 emitter process timed out")
        f = os.path.join(od, "c42.json")
        if p.returncode != 0 or not os.path.exists(f):
            raise core.Inconclusive("C42 emitter process failed rc=%s (see %s)" % (p.returncode, logf))
        results.append((od, json.load(open(f))))
    out = {}
    for d in descs:
        name = d["name"]
        if verdict.get(name, {}).get("cls") != "ok":
            continue
        hashes = []
        for od, r in results:
            e = r.get(name)
            hashes.append([str(x) for x in e[:2]] if e else ["missing", "missing"])
        flat = [h for pair in hashes for h in pair] + [verdict[name]["code_hash"]]
        diff = ""
        if len(set(flat)) != 1:
            texts = []
            for od, _ in results:
                for fn in (name + ".rs", name + ".second.rs"):
                    p = os.path.join(od, fn)
                    if os.path.exists(p):
                        texts.append(open(p).read().splitlines())
            base = texts[0] if texts else []
            for t in texts[1:]:
                for k, (x, y) in enumerate(zip(base, t)):
                    if x != y:
                        diff = "line %d: %r vs %r" % (k + 1, x[:160], y[:160])
                        break
                if diff:
                    break
        out[name] = {"hashes": hashes, "diff": diff}
    shutil.rmtree(root, ignore_errors=True)
    return out


def _c42_judge(descs, verdict, emitted, viols, samples, distinct, counters):
    evals = 0
    for d in descs:
        name = d["name"]
        if verdict.get(name, {}).get("cls") != "ok" or name not in emitted:
            counters["programs_not_generated"] = counters.get("programs_not_generated", 0) + 1
            continue
        hashes = emitted[name]["hashes"]
        evals += 1
        counters["generator_runs"] = counters.get("generator_runs", 0) + 2 * len(hashes) + 1
        if len(d["distinct_ops"]) >= 3:
            distinct.add(d["text_hash"])
        flat = [h for pair in hashes for h in pair] + [verdict[name]["code_hash"]]
        if len(set(flat)) == 1:
            counters["programs_identical"] = counters.get("programs_identical", 0) + 1
            if d["nprocs"] > 1:
                counters["identical_multi_location"] = counters.get("identical_multi_location", 0) + 1
            if len(samples) < 6:
                samples.append({"program": name, "code_hash": flat[0], "ops": d["distinct_ops"], "runs": len(flat)})
            continue
        inproc = any(a != b for a, b in hashes)
        kind = "within one process" if inproc else "between processes"
        viols.append({"t": "violation", "prop": "C42",
                      "sig": "C42|generate_embedded|generated code differs " + kind,
                      "what": "program %s: hashes per process (run1, run2) = %s, build-time = %s; %s"
                              % (name, hashes, verdict[name]["code_hash"], emitted[name]["diff"]),
                      "case": _case("C42", d, {"observed": emitted[name]})})
    return evals


def _batch_all(batch, seed, n, tier, logf, use_cache=True, want=("c28", "c42")):
    """Everything the three properties need from one batch of programs, from ONE build: per-program
    verdicts (C41), the C28 run of the binary, the C42 emitter runs. Cached on disk (keyed by programs,
    tier, seed, generator version and the state of the repository under test) so that whichever of the
    three checks runs first pays for the build and the others reuse its observations."""
    key = hashlib.sha1(json.dumps(["all", seed, n, tier, _gen().GEN_VERSION, _repo_state(),
                                   [d["text_hash"] for d in batch]]).encode()).hexdigest()[:16]
    cdir = os.path.join(core.BUILD, "hydro-gen-cache")
    os.makedirs(cdir, exist_ok=True)
    cfile = os.path.join(cdir, key + ".all.json")
    if use_cache and os.path.exists(cfile):
        with open(logf, "a") as lf:
            lf.write("\n[drv_gen] reusing observations of this batch from %s\n" % cfile)
        return json.load(open(cfile))
    verdict, st = prepare(batch, seed, n, logf, use_cache=use_cache)
    res = {"verdict": verdict, "c28_out": None, "c42": None}
    wsdir, _ = core.workspace_dir("hydro")
    exe = core.bin_path("hydro", "hv_gen_emb")
    if "c28" in want:
        rc, out = core.run_logged([exe, "--prop", "C28", "--tier", tier, "--seed", str(seed)], wsdir,
                                  core.base_env(), logf, 3600)
        with open(logf, "a") as lf:
            lf.write(out[-20000:])
        res["c28_out"] = out
        res["c28_rc"] = rc
    if "c42" in want:
        res["c42"] = _c42_emit(batch, verdict, st, logf, 3)
    if use_cache:
        json.dump(res, open(cfile + ".tmp", "w"))
        os.replace(cfile + ".tmp", cfile)
    return res


def run_c42(prop, tier, seed, logf, replay):
    with _Lock():
        g = _gen()
        viols, samples, distinct, counters = [], [], set(), {}
        if replay:
            case, descs = _replay_descs(replay, prop)
            if descs is None:
                return [], []
            verdict, st = prepare(descs, case["desc"].get("gen", {}).get("seed", 0), 1, logf, use_cache=False)
            emitted = _c42_emit(descs, verdict, st, logf, 6)
            _c42_judge(descs, verdict, emitted, viols, samples, distinct, counters)
            return [], viols
        n = N_PROGRAMS[tier]
        descs = g.generate(seed, n)
        evals = 0
        for batch in _batches(descs):
            res = _batch_all(batch, seed, n, tier, logf)
            evals += _c42_judge(batch, res["verdict"], res["c42"], viols, samples, distinct, counters)
        min_fail = []
        if evals < 0.8 * n:
            min_fail.append("only %d of %d generated programs reached the comparison" % (evals, n))
        if counters.get("identical_multi_location", 0) + len(viols) < 1:
            min_fail.append("no multi-location program was compared")
        extra = {"counters": counters, "processes": 3, "programs_generated": n}
        return [_summary("C42", evals, len(distinct), RULE_C42, samples, extra, min_fail, len(viols), "hydro-codegen")], viols


# ------------------------------------------------------------------------------------------------
# C28 (generated programs)


def run_c28(prop, tier, seed, logf, replay):
    with _Lock():
        g = _gen()
        wsdir, _ = core.workspace_dir("hydro")
        exe = core.bin_path("hydro", "hv_gen_emb")
        if replay:
            case, descs = _replay_descs(replay, prop)
            if descs is None:
                return [], []
            prepare(descs, case["desc"].get("gen", {}).get("seed", 0), 1, logf, use_cache=False)
            rc, out = core.run_logged([exe, "--prop", "C28", "--tier", tier, "--seed", str(seed), "--replay", replay],
                                      wsdir, core.base_env(), logf, 600)
            return core.parse_lines(out)
        n = N_PROGRAMS[tier]
        descs = g.generate(seed, n)
        summaries, viols = [], []
        for bi, batch in enumerate(_batches(descs)):
            res = _batch_all(batch, seed, n, tier, logf)
            out, rc = res["c28_out"], res.get("c28_rc", 0)
            sm, v = core.parse_lines(out)
            if rc != 0 and not v:
                raise core.Inconclusive("hv_gen_emb --prop C28 exited rc=%d (see %s)" % (rc, logf))
            if not sm:
                raise core.Inconclusive("hv_gen_emb --prop C28 printed no summary (see %s)" % logf)
            for x in sm:
                x["stage"] = "generated" if len(descs) <= BATCH else "generated-batch%d" % bi
                x["engine"] = "hv_gen_emb"
            summaries += sm
            viols += v
        return summaries, viols
