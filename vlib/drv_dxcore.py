"""Driver for the dx_core engine (C21, C23, C24): keys the generated-program build on (seed, tier),
runs the 8 shard binaries in parallel and merges their summaries into one (the coverage
requirements span all shards).

One cargo package serves the three properties: the build script regenerates only when
VERIF_GEN_SEED / VERIF_GEN_N / VERIF_GEN_SKIP change, so running C21, C23, C24 in a row with the same
seed and tier pays rustc once (cargo is still invoked every time, so edits under /repo are picked up).
"""
import json
import os
import re
import subprocess
import time

from . import core

SHARDS = 8
N_PROGRAMS = {"quick": 48, "thorough": 192}
MAX_SKIP_FRACTION = 0.08


def _bins():
    return ["dx_core"] + ["dx_core_s%d" % k for k in range(1, SHARDS)]


def _build(seed, n, logf):
    """cargo build; if generated programs fail to compile, leave them out (recorded) and retry."""
    skipped = {}
    for attempt in range(4):
        env = {"VERIF_GEN_SEED": str(seed), "VERIF_GEN_N": str(n),
               "VERIF_GEN_SKIP": ",".join(str(i) for i in sorted(skipped))}
        mark = os.path.getsize(logf) if os.path.exists(logf) else 0
        try:
            wsdir, benv = core.cargo_build("dfirx", "dx_core", logf, extra_env=env)
            return wsdir, benv, skipped
        except core.Inconclusive:
            txt = open(logf, errors="replace").read()[mark:]
            bad = _failing_programs(txt)
            new = {i: m for i, m in bad.items() if i not in skipped}
            if not new:
                raise
            skipped.update(new)
            if len(skipped) > max(1, int(n * MAX_SKIP_FRACTION)):
                raise core.Inconclusive("%d of %d generated programs do not compile (see %s): %s"
                                        % (len(skipped), n, logf, sorted(skipped)))
    raise core.Inconclusive("generated programs still do not compile after retries (see %s)" % logf)


def _failing_programs(txt):
    """Map rustc error locations `programs_K.rs:LINE` to program ids via programs_K.map."""
    out = {}
    cur_err = None
    for line in txt.splitlines():
        if line.startswith("error"):
            cur_err = line.strip()
        m = re.search(r"--> (\S+/programs_(\d+)\.rs):(\d+):", line)
        if m and cur_err:
            path, k, ln = m.group(1), int(m.group(2)), int(m.group(3))
            mp = path[:-3] + ".map"
            try:
                for row in open(mp):
                    a, b, pid = [int(x) for x in row.split()]
                    if a <= ln <= b:
                        out.setdefault(pid, cur_err[:300])
            except OSError:
                pass
            cur_err = None
    return out


def _merge(prop, summaries, skipped, n, tier):
    ev = sum(int(s.get("evaluations", 0)) for s in summaries)
    distinct = sum(int(s.get("distinct_nontrivial", 0)) for s in summaries)
    viol = sum(int(s.get("violations", 0)) for s in summaries)
    samples = []
    for s in summaries:
        samples += s.get("samples", [])[:1]
    counters, matrix, ast_cover, depths, programs, vbs = {}, {}, {}, {}, [], {}
    decisions = []
    exhaustive_h = 0
    for s in summaries:
        x = s.get("extra", {})
        for k, v in x.get("counters", {}).items():
            counters[k] = counters.get(k, 0) + v
        for op, cols in x.get("op_matrix", {}).items():
            d = matrix.setdefault(op, {})
            for c, v in cols.items():
                d[c] = d.get(c, 0) + v
        for k, v in x.get("ast_cover", {}).items():
            ast_cover[k] = ast_cover.get(k, 0) + v
        for k, v in x.get("deep_depths", {}).items():
            depths[k] = depths.get(k, 0) + v
        for k, v in x.get("violations_by_signature", {}).items():
            vbs[k] = vbs.get(k, 0) + v
        programs += x.get("programs", [])
        decisions = x.get("semantic_decisions", decisions) or decisions
        exhaustive_h += int(x.get("exhaustive_histories", 0))

    reasons = []
    for s in summaries:
        if not s.get("min_obs_ok", True):
            reasons += s.get("min_obs_reason", [])
    nprog = len(programs)
    if prop == "C21":
        want = _catalogue_keys()
        missing = sorted(k for k in want if ast_cover.get(k, 0) == 0)
        if missing:
            reasons.append("catalogue entries never generated: %s" % ", ".join(missing))
        # realised colours as reported by the compiled graphs
        unary_both = [op for op, cols in matrix.items() if cols.get("Pull", 0) and cols.get("Push", 0)]
        if len(unary_both) < (12 if tier == "quick" else 25):
            reasons.append("only %d operators seen in both pull and push position" % len(unary_both))
        if nprog < int(0.9 * n):
            reasons.append("only %d of %d programs ran" % (nprog, n))
    elif prop == "C23":
        if nprog < max(6, n // 5):
            reasons.append("only %d deep-feeder programs ran" % nprog)
        if len(depths) < 4:
            reasons.append("feeder depths seen: %s" % sorted(depths))
        for c in ("c23_direct_neg_checks",):
            if counters.get(c, 0) == 0:
                reasons.append("no %s performed" % c)
    else:
        if nprog < max(6, n // 5):
            reasons.append("only %d deferral programs ran" % nprog)
        for c in ("c24_avail_multi_tick", "c24_lazy_held_at_stop", "c24_wake_fired", "c24_direct_defer_checks",
                  "c24_loop_lazy_held_at_stop"):
            if counters.get(c, 0) == 0:
                reasons.append("situation never observed: %s" % c)
        # run_available_sync calls that needed >= 2 ticks because of a defer_tick inside a root-level loop
        if counters.get("c24_loop_defer_avail_multi_tick", 0) < 100:
            reasons.append("only %d run_available_sync histories kept ticking because of a defer_tick inside a root-level loop"
                           % counters.get("c24_loop_defer_avail_multi_tick", 0))
    if distinct < 200:
        reasons.append("only %d distinct non-trivial (program, history) pairs" % distinct)

    extra = {"counters": counters, "op_matrix": matrix, "ast_cover": ast_cover, "programs_run": nprog,
             "programs_generated": n, "compile_skipped": {str(k): v for k, v in skipped.items()},
             "exhaustive_histories": exhaustive_h, "shards": len(summaries)}
    if depths:
        extra["deep_feeder_depths"] = depths
    if decisions:
        extra["semantic_decisions"] = decisions
    if vbs:
        extra["violations_by_signature"] = vbs
    if prop == "C21":
        extra["not_covered"] = NOT_COVERED
    return {"t": "summary", "prop": prop, "evaluations": ev, "distinct_nontrivial": distinct,
            "rule": summaries[0].get("rule", "") if summaries else "", "samples": samples[:6],
            "exhaustive": nprog > 0 and all(s.get("exhaustive") for s in summaries
                                            if s.get("extra", {}).get("programs")),
            "min_obs_ok": not reasons, "min_obs_reason": reasons, "extra": extra, "violations": viol,
            "stage": "native", "engine": "dx_core"}


NOT_COVERED = [
    "lattice_bimorphism, _lattice_fold_batch, _lattice_join_fused_join (lattice-typed flows; not expressible over the uniform (i64,i64) item type without a second type universe)",
    "resolve_futures*(+ordered/blocking), scan_async_blocking, flat_map/flatten_stream_blocking (need an async executor; run_tick_sync forbids yielding)",
    "zip_longest with 'static (rejected by the operator), persist with 'tick (rejected), multiset_delta on the push side (does not type-check, see report)",
    "loop {} / batch / all_iterations (C26), #mut / access-group references (C25)",
]


def _catalogue_keys():
    ps = ["'tick", "'static"]
    keys = ["map", "filter", "filter_map", "flat_map", "flatten", "inspect", "identity", "handoff", "persist<'static>",
            "multiset_delta", "sort", "sort_by_key", "defer_tick", "defer_tick_lazy", "zip_longest<'tick>", "chain",
            "chain_first_n", "defer_signal", "union", "partition[indexed]", "partition[named]", "demux_enum", "unzip",
            "#singleton-ref", "#handoff-ref"]
    for p in ps:
        for op in ["enumerate", "unique", "fold", "fold_no_replay", "reduce", "reduce_no_replay", "fold_keyed",
                   "reduce_keyed", "scan", "cross_singleton", "state_by"]:
            keys.append("%s<%s>" % (op, p))
        for op in ["lattice_fold", "lattice_reduce", "state"]:
            for lat in ["Max", "Set"]:
                keys.append("%s<%s>[%s]" % (op, p, lat))
        for q in ps:
            for op in ["join", "join_multiset", "join_fused", "join_fused_lhs", "join_fused_rhs", "join_multiset_half",
                       "anti_join", "difference", "cross_join", "cross_join_multiset", "zip"]:
                keys.append("%s<%s,%s>" % (op, p, q))
    return keys


def run(prop, tier, seed, logf, replay):
    n = N_PROGRAMS.get(tier, N_PROGRAMS["quick"])
    only = None
    if replay:
        rj = json.load(open(replay))
        case = rj.get("case", rj)
        seed = int(case.get("gen_seed", seed))
        n = int(case.get("gen_n", n))
        only = int(case["program"]) % SHARDS
    t0 = time.time()
    wsdir, env, skipped = _build(seed, n, logf)
    with open(logf, "a") as lf:
        lf.write("[dx_core build for seed=%s n=%d took %.1fs, skipped=%s]\n" % (seed, n, time.time() - t0, sorted(skipped)))
    procs = []
    for k, b in enumerate(_bins()):
        if only is not None and k != only:
            continue
        exe = core.bin_path("dfirx", b)
        cmd = [exe, "--prop", prop, "--tier", tier, "--seed", str(seed)]
        if replay:
            cmd += ["--replay", replay]
        errf = open("%s.dx%d" % (logf, k), "w")
        procs.append((k, cmd, errf, subprocess.Popen(cmd, cwd=wsdir, env=env, stdout=subprocess.PIPE, stderr=errf, text=True)))
    summaries, violations = [], []
    deadline = time.time() + (1500 if tier == "quick" else 4 * 3600)
    for k, cmd, errf, p in procs:
        try:
            out, _ = p.communicate(timeout=max(1, deadline - time.time()))
        except subprocess.TimeoutExpired:
            for _, _, _, q in procs:
                q.kill()
            raise core.Inconclusive("dx_core shard %d watchdog fired" % k)
        errf.close()
        err = open("%s.dx%d" % (logf, k)).read()
        with open(logf, "a") as lf:
            lf.write("\n$ " + " ".join(cmd) + "\n[rc=%d]\n" % p.returncode + err[-4000:] + out[-6000:])
        s, v = core.parse_lines(out)
        if p.returncode != 0 and not v:
            raise core.Inconclusive("dx_core shard %d exited rc=%d (see %s)" % (k, p.returncode, logf))
        if not s and not replay:
            raise core.Inconclusive("dx_core shard %d printed no summary" % k)
        summaries += s
        violations += v
    if replay:
        return summaries, violations
    return [_merge(prop, summaries, skipped, n, tier)], violations
