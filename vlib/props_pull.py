from .registry import reg, mon, miri

reg("C11", [mon("rt", "mon_pull"), miri("rt", "mon_pull", shards_quick=1, shards_thorough=8)],
    technique="runtime monitor: every real dfir_pipes pull combinator (and ~310 depth-2 compositions) pulled over scripted "
              "inputs under bounded-exhaustive Pending placements; PullStep sequence and size_hint() before every pull judged "
              "against the std Iterator adapter, the FusedPull promise, the size-hint bracket and a no-spurious-Pending rule; "
              "Miri shard over the same harness",
    text="Catalogue: map, filter, filter_map, flat_map, flatten, enumerate, skip, skip_while, take, take_while, inspect, fuse, "
         "by_ref, chain, zip, zip_longest, cross_singleton(+_state), either, once/empty/repeat/pending/iter/from_fn/poll_fn, "
         "stream/stream_compat/stream_ready, flat_map_stream, flatten_stream, filter_map_async, collect, for_each, next, "
         "accumulate_all (Fold/Reduce/FoldFrom), send_push, send_sink and 13x13 + 13x4 + 4x7x2 depth-2 compositions. Each is run on "
         "every item sequence of length <=4 over {0,1,2} x every placement of <=2 (quick) / <=3 (thorough) Pendings per input "
         "(two-input: product of placements; thorough also the full product with all <=2-Pending scripts), every predicate over "
         "{0,1,2} / count 0..5, every placement of <=k Pendings among the inner futures / inner streams / downstream "
         "poll_ready+finalize answers, with fused, non-fused (poisoned after their end) and CanPend=No inputs and exact or loose "
         "truthful upstream hints; then 20 000 / 10^6 random runs (<=30 items, Pending density 0-60 %). Judged: Ready items == "
         "iterator adapter output in order; every type that implements FusedPull answers Ended on 5 further pulls (Fuse never "
         "re-polls a non-fused upstream); lower <= items still to come <= upper before every pull; a Pending answer consumed "
         ">=1 scripted Pending; step cap 3*(items+pendings)+16.",
    note="Expected outputs are std::iter adapters written next to each combinator (~1 line each); whether a type is FusedPull "
         "is read off the type system (autoref probe), so a removed impl is not a violation. For stream_ready (a stream Pending "
         "is reported as Ended, by design) the lower bound is only judged against what is left in the whole stream; the cases "
         "where it exceeds the items before the next Ended are counted. Wakers are not checked (inputs are re-polled "
         "unconditionally). Compositions deeper than 2 and item sequences longer than 30 are not explored. A composition "
         "failure that one of its components shows on its own is reported under `C11|<component>|<kind>|composed`.")

reg("C13", [mon("rt", "mon_pull"), miri("rt", "mon_pull", shards_quick=1, shards_thorough=8)],
    technique="runtime monitor: real SymmetricHashJoin / symmetric_hash_join(is_new_tick) / NewTickJoinIter with "
              "HalfSetJoinState and HalfMultisetJoinState driven over scripted and gated inputs, emitted multiset judged against "
              "a nested-loop relational join; multi-tick histories on persisted or cleared &mut state; Miri shard",
    text="One tick: all left/right inputs of <=3 items over keys {0,1} x values {0,1} x every placement of <=2 Pendings per side, "
         "and every global arrival interleaving of the two sequences (gated inputs, plus a stall at one / every position), each "
         "through the incremental join and through the drain-then-enumerate new-tick path, for set/set, multiset/multiset and "
         "both mixed states: emitted pairs == nested-loop join (deduplicated on set sides, with multiplicity on multiset sides), "
         "both paths equal. Multi-tick: every history of <=3 (quick) / <=4 (thorough) ticks with <=1 arrival per side and tick x "
         "'static/'tick per side x 4 state kinds x {replaying, incremental} plus 30 000 / 600 000 random richer histories: "
         "replaying tick output == join(persisted U new), incremental tick output == join(after) - join(before), and over a fully "
         "persisted incremental history every pair exactly once. Random joins with 50 keys and <=200 items.",
    note="The oracle is ~40 lines (Vec-based state model + nested loops). 'tick persistence is modelled as the generated code "
         "does it (HalfJoinState::clear at tick end). Every join is driven to Ended before the next tick; abandoning a join "
         "midway (left-over current_matches) is not explored. Keys/values are small integers; hash collisions of FxHash are not "
         "targeted.")
