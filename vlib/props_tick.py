from .registry import reg, mon

_PROD = ("production code generation only here (generate_embedded -> one DFIR graph per location, ticks and atomic "
         "regions collapsed onto it); schedules that only the simulator can produce are covered by the simulator stage")

reg("C30", [mon("hydro", "hv_tick_emb")],
    technique="runtime monitor: corpus of tick programs compiled by the production code generator, driven tick by "
              "tick with harness-chosen batches; per-tick outputs compared with plain-Rust batch semantics, "
              "cross-tick reference for deferred values, isolation re-run for leaks",
    text="58 hand-written Hydro flows (fold/reduce/count/max/min/first/last/limit/sort/enumerate/cross_singleton/"
         "join/anti_join/filter_not_in/unique/chain/keyed fold+reduce+first; defer_tick x1/x2 on streams, optionals, "
         "keyed streams, keyed singletons; tick cycles with and without initial value; forward refs; across_ticks; "
         "first-tick values; snapshots; 18 flows that use optional_first_tick / tick.singleton / tick.none DIRECTLY as "
         "the singleton side of cross_singleton, the argument of zip, the condition of filter_if(_some/_none), or "
         "or/chain/join/anti_join operands) run through generate_embedded. Every 3-tick history over 13 small batches "
         "(two-input flows: 2-tick histories over all batch pairs, a third of them in the quick tier) plus 600 / "
         "12 000 random histories per flow of up to 7 ticks; the rows each tick emits must equal the reference for "
         "exactly that tick (deferred values exactly one tick later, nothing during the 4 quiescence ticks beyond the "
         "reference) and, for tick-local flows, equal a fresh run on that batch alone.",
    note="Corpus, not a program generator (random tick programs are the job of the hv_gen pair). The order among "
         "the build-side matches of one probe item in a half join is not pinned by the docs and is compared as a "
         "multiset; anti_join/filter_not_in are judged with multiset semantics on the positive side (what the "
         "generated DFIR does; the rustdoc sentence 'unique items' is ambiguous). " + _PROD)

reg("C31", [mon("hydro", "hv_tick_emb")],
    technique="runtime monitor: sliced! programs compiled by the production code generator emit what every hook "
              "revealed per slice; judged against the documented slice guarantees under all / random partitions",
    text="Six sliced! programs covering use::batch (stream, keyed stream, bounded-value keyed singleton), "
         "use::snapshot (singleton x2 from one input, optional, keyed singleton), use::atomic (stream + singleton of "
         "one atomic region), use::state and use::state_null (stream, optional). For random inputs of length 1..6 "
         "every composition into ticks (with and without empty ticks between chunks; all composition pairs for the "
         "two-input program) and random partitions of 5-30 items: batches concatenate to the input in order (per "
         "key for keyed), each element in exactly one batch; snapshots never go back; two snapshots of one slice "
         "reflect the same input prefix and an atomic snapshot covers the atomic batch revealed with it; state "
         "equals what the previous slice wrote.",
    note="A non-atomic snapshot is allowed to lag behind the batch of the same slice (docs), so that relation is "
         "only counted. " + _PROD)

reg("C34", [mon("hydro", "hv_tick_emb")],
    technique="runtime monitor: counter services with atomic write/ack and atomic read paths compiled by the "
              "production code generator, driven by a scripted + reactive client that issues gets after observing "
              "acknowledgements (from inside the acknowledgement callback at the earliest); read >= acknowledged",
    text="Four services (keyed value_counts as in the tutorial, keyed sum, single count, single count whose atomic "
         "region is opened by yield_atomic). Every (thorough) / a quarter (quick) of the 3-tick scripts over 2 keys "
         "with <= 2 increments and any subset of gets per tick, reactive client off and on, plus 1 500 / 30 000 random "
         "scripts per service of up to 8 ticks: every get issued after k acknowledgements for its key were observed "
         "reads >= k, never more than was ever sent, and is answered exactly once; every increment is acknowledged "
         "exactly once. The documented non-atomic variants run as positive controls; whether their bug shows up "
         "under production scheduling is recorded in the evidence (it is expected to be caught by the simulator "
         "stage), not judged.",
    note=_PROD)

reg("C39", [mon("hydro", "hv_tick_emb")],
    technique="runtime monitor: hydro_std quorum helpers and join_responses compiled by the production code "
              "generator, all response sequences x all tick partitions, judged from the documented intent",
    text="collect_quorum and collect_quorum_with_response for every (min,max) with 1<=min<=max<=5 (15 generated "
         "flows, including the sub-majority shapes max >= 2*min+1: (1,3),(1,4),(1,5),(2,5)) over all response "
         "sequences on 2 keys with <= max responses per key (Ok/Err; for max 4 / 5 capped at 6 / 5 responses in total, "
         "thorough 7 / 6, which contains every one-key sequence), under every composition into ticks with and without "
         "empty ticks in between, plus 10 000 / 150 000 random error-heavy to success-heavy sequences per (min,max) "
         "over up to 5 keys: a key is reported exactly once iff it gathered >= min Ok and never before; "
         "with_response releases only arrived Ok payloads of such keys, each once, >= min of them, in one tick, in "
         "input order; every Err passes through once in order. The run is inconclusive unless, for every sub-majority "
         "shape, >= 300 cases had more than max/2 errors arrive strictly before a later Ok of the same key (>= 100 of "
         "them completing the quorum only afterwards). join_responses over every placement of request and "
         "response for 3 keys x 3 ticks with request tick <= response tick, plus random cases: each response is "
         "paired with its request's metadata exactly once.",
    note="Inputs stay inside the helpers' documented contracts (<= max responses per key; one request and one "
         "response per key; metadata generated in the same or an earlier tick than the response) - a response "
         "arriving a tick before its request is dropped by join_responses, which the contract allows; that is "
         "counted, not judged. The number of payloads beyond min released by with_response depends on batching "
         "when max > min and is not constrained. " + _PROD)
