"""Builder "simb": C40 (primary) and the simulator stages of C31 / C34 / C39 (crate engines/hydro/hv_sim_b)."""
from .registry import reg, cargotest, add_stage

reg("C40",
    [cargotest("hydro", "hv_sim_b", "tests::c40_raft", timeout=7200),
     cargotest("hydro", "hv_sim_b", "tests::c40_paxos", timeout=7200)],
    technique="runtime monitor: the shipped Raft runs in the Hydro simulator and the shipped Paxos in its production "
              "(embedded) codegen under a seeded adversarial scheduler; harness-owned timers, requests and fail-stop "
              "network; the harness's own pairwise log-agreement oracle over the members' committed outputs, "
              "evaluated at every phase barrier",
    text="Raft (raft_server, 3 members; 5 in thorough): 6 000 (quick) / 460 000 (thorough) simulator schedules in three "
         "script families (racy rounds with 1-2 concurrent challengers overlapping replication, everything outstanding "
         "at once, random staggered actions), every scheduler decision drawn from VERIF_SEED (exactly replayable), plus "
         "the complete enumeration (simulator `exhaustive`) of small scenarios: election; request racing a heartbeat "
         "round; one more heartbeat round (51 480 schedules; thorough adds election+request+heartbeat all at once, "
         "40 976). Paxos (paxos_core, 2-3 proposers, 3 acceptors): 1 500 / 30 000 schedules of 500 scheduler decisions "
         "(ticks, per-channel FIFO deliveries, paused-clock advances racing the 1 s/2 s timers, client payloads, leader "
         "stalls). Oracle: for all members a,b and log positions i the committed entries agree whenever both are "
         "defined, and no member ever emits a different entry for a position it already committed; the "
         "implementation's own 'protocol violation' guards firing is reported as well.",
    note="Paxos cannot be compiled by the Hydro simulator at this revision (top-level `.max()` on an unbounded stream is "
         "unsupported there and its timers are wall-clock tokio intervals), so it is explored by a harness scheduler over "
         "the production codegen instead (anonymous channels are given positional names through the public IR rewrite "
         "hook, nothing else is changed). Raft's exhaustive part covers only the small scenarios; everything else is "
         "sampled. Simulator executions run in child processes because a panic inside the simulator's dylib aborts the "
         "process. The simulator's byte driver reads 4096 decision bytes per schedule, later decisions are 0 (same cap "
         "as the simulator's own fuzz). Lossy channels and crash-recovery are out of scope (fail-stop model).")

add_stage("C31", cargotest("hydro", "hv_sim_b", "tests::c31_slices_sim", timeout=7200))
add_stage("C34", cargotest("hydro", "hv_sim_b", "tests::c34_atomic_sim", timeout=7200))
add_stage("C39", cargotest("hydro", "hv_sim_b", "tests::c39_quorum_sim", timeout=7200))
