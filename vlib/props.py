"""The property table: which stages decide which property, and the MANIFEST texts."""
from .registry import *  # noqa

reg("C17", [mon("rt", "mon_graphalg")],
    technique="runtime monitor: real topo_sort/SubgraphMerge/UnionFind driven over all small digraphs and merge histories, judged by independent Kahn/quotient/partition oracles",
    text="Bounded-exhaustive exploration (all digraphs <=4 nodes, all DAGs <=4 nodes x all try_merge sequences of length 3/4 x enemy sets) plus random <=14-node histories on the real implementation; each return value and the full structure after every step is judged by an independent oracle.",
    note="Oracles (Kahn, quotient reachability, partition) are ~60 lines written in the harness; graphs beyond 14 nodes are not explored.")

# per-engine fragments (vlib/props_<engine>.py) register their own properties
import glob as _glob, importlib as _importlib, os as _os
for _f in sorted(_glob.glob(_os.path.join(_os.path.dirname(__file__), "props_*.py"))):
    _importlib.import_module("vlib." + _os.path.basename(_f)[:-3])

for _pid, _lst in EXTRA_STAGES.items():
    if _pid not in PROPS:
        continue  # the primary registration is missing: the property stays unclaimed
    for _st, _as in _lst:
        PROPS[_pid]["stages"].append(_st)
        PROPS[_pid]["assumptions"] += _as
