SETUP_CMD = "bin/setup"
HOOKS = {
    "guard": "--cfg hydro_project_hydro_verif",
    "enable": "RUSTFLAGS='--cfg hydro_project_hydro_verif' for every harness build (bin/check sets it); harness workspaces under /verif/engines use path dependencies on /repo",
    "baseline_off_cmd": "cd /repo && cargo nextest run --workspace --no-fail-fast --test-threads 8 --offline || cargo test --workspace --no-fail-fast --offline",
    "source_commits": [],
    "add_only": True,
}
ENGINES = [
    {"name": "rt", "path": "engines/rt", "serves_properties": ["C17"],
     "kind_free_text": "cargo workspace of native runtime monitors (reference-model / protocol oracles over the real library code), optionally re-run under Miri"},
]
NOT_CLAIMED = {}
NOTES = "Every check is `bin/check <id> --tier <t>`; exit 0 held, 1 violated (VIOLATION line), 2 inconclusive (INCONCLUSIVE line, never folded into the others). Seeds come from VERIF_SEED. Known findings live in known_findings.json."
