SETUP_CMD = "bin/setup"
HOOKS = {
    "guard": "--cfg hydro_project_hydro_verif",
    "enable": "RUSTFLAGS='--cfg hydro_project_hydro_verif' for every harness build (bin/check sets it); harness workspaces under /verif/engines use path dependencies on /repo",
    "baseline_off_cmd": "cd /repo && cargo nextest run --workspace --no-fail-fast --tool-config-file pb:/w/lib/nextest.toml --profile pb --test-threads 8 --offline",
    "source_commits": ["1bf37154677", "e570523f069", "52259581cd4", "97366fe488e"],
    "add_only": True,
}
ENGINES = [
    {"name": "dfirx", "path": "engines/dfirx", "serves_properties": [],
     "kind_free_text": "cargo workspace: generated dfir_syntax! programs compiled by the real proc-macro and driven with per-tick input histories; oracles = reference interpreter of the documented operator semantics, shape-variant differential, reference/loop semantics"},
    {"name": "hydro", "path": "engines/hydro", "serves_properties": [],
     "kind_free_text": "cargo workspace: stageleft flow crates compiled through the production code generator (generate_embedded) and driven tick by tick under harness-chosen tick partitions; simulator-driven monitors hosted in #[test]s"},
    {"name": "rt", "path": "engines/rt", "serves_properties": ["C17"],
     "kind_free_text": "cargo workspace of native runtime monitors (reference-model / protocol oracles over the real library code), optionally re-run under Miri"},
]
NOT_CLAIMED = {}
NOTES = "Every check is `bin/check <id> --tier <t>`; exit 0 held, 1 violated (VIOLATION line), 2 inconclusive (INCONCLUSIVE line, never folded into the others). Seeds come from VERIF_SEED. Known findings live in known_findings.json."
