from .registry import reg, mon, cargotest

reg("C35", [mon("hydro", "hv_net_emb"), cargotest("hydro", "hv_net_flows", "tests::c35_sim_network")],
    technique="runtime monitor: sender/receiver code emitted by the production generator (generate_embedded) for every "
              "process/cluster networking shape x payload type, instantiated once per member; the harness is the transport "
              "(routes each frame by the member-id tag the generated code emitted, tags with the sender id); received "
              "sequences judged by a per-(receiver, sender) expectation oracle; MemberId<->TaglessMemberId round trips. "
              "Second stage: the Hydro simulator's own network (exhaustive + seeded schedules) on multi-channel, multi-cluster, "
              "multi-version flows, every member observed, same oracle",
    text="For 47 generated programs (o2o, o2m demux / keyed demux / broadcast, m2o / keyed / CLUSTER_SELF_ID, m2m demux / "
         "broadcast; payloads i64, String, Option<Vec<(i64,String)>>, a recursive enum, a nested struct, a struct carrying "
         "MemberIds, a (String, struct) pair; bincode and `.embedded()` serialization) random scenarios (quick 150, thorough 1500 "
         "per program, >= 10^4 / 10^5 values per payload type: clusters of 1-4 members with non-contiguous raw ids up to u32::MAX, 1-4 data rounds, sends to ids that "
         "are no member, broadcast membership histories with late joiners / leavers, random transport delays and interleavings "
         "with per-link FIFO) are executed on the real generated Dfirs. Checked: every value arrives equal (edge values such as "
         "i64::MIN/MAX, empty and 70k-char strings, None, 30-deep nesting included), exactly once, in per-sender order, only at the "
         "addressed member(s), keyed by the true sender id; wire destination tags equal the addressed ids (an unknown id is never "
         "redirected to a member); CLUSTER_SELF_ID equals the instance id; 10^4 (thorough 10^5) raw ids round-trip through "
         "from_raw_id/get_raw_id/into_tagless/from_tagless and both serde forms. Simulator stage (hv_net_flows "
         "tests::c35_sim_network): 3 compiled flows - one process demuxing to two clusters over the same channel name and over "
         "unnamed channels, a second process and the first cluster's members sending to the same clusters / a process over shared "
         "names; the same as a multi-version flow (a destination cluster with v0 and v1, cross-version addresses); cluster->cluster "
         "broadcast - with nested struct payloads; hand-written 1-3 message scripts under `exhaustive` (about 38k executions, "
         "almost all from the broadcast shape) and 150/1500 random 4-10 message scripts per flow under seeded schedules; per execution "
         "every delivered value must equal a sent one, come out of the channel it was sent on at the addressed member with the "
         "sender's id, in per-sender order, exactly once, and nothing may be lost.",
    note="The transport is the harness's in-memory one (per-link FIFO, no loss, no connection failure); ticks are run with "
         "run_tick_sync. For broadcasts the expected recipients of a message are the members whose Joined event was fed in an "
         "earlier tick and that have not left (a frame emitted to a member after its Left event was fed is a violation, per the doc sentence 'only broadcast to the current cluster members at that point in time'); membership events and data are never fed in the same tick. Only the "
         "`Legacy {raw_id}` member-id representation exists in this build. In the simulator stage sends "
         "precede all observations (no mid-run sends), payloads are one struct type, clusters have 2-3 members; a simulator that "
         "fails to compile for these flows makes the run inconclusive, not a violation.")
