"""C18, C19, C20 and the DFIR half of C42: graph-level stages of the DFIR compiler (engine rt/mon_dfirgraph)."""
from .registry import reg, mon

_GEN = ("every arity-respecting wiring of <=4 operators over {source_iter,map,union,tee,defer_tick,for_each} "
        "(4 898 + 320 + 31 + 4 graphs; thorough adds a quarter of the 117 450 five-operator ones) plus 3 000 / 100 000 "
        "seeded random DFIR texts over a 72-operator catalogue (sources, map/filter/.., union, tee, join family, "
        "difference/anti_join, fold/reduce/.., cross_singleton, persist, unique, sort, state, defer_tick/defer_tick_lazy, "
        "handoff()/singleton()/optional() with #x / #mut x / #{N} x references, loop{} blocks nested up to 3 deep with "
        "batch/batch_lazy/all_iterations, unary unions/tees, inserted back edges with and without a delay)")

reg("C18", [mon("rt", "mon_dfirgraph")],
    technique="runtime monitor: the macro's own stages (FlatGraphBuilder -> merge_modules -> eliminate_extra_unions_tees -> "
              "partition_graph) run as a library on generated DFIR programs; every accepted partitioned graph judged by an "
              "independent structural checker",
    text="Programs: " + _GEN + ". Each text goes through exactly the stage sequence of build_dfir_code; for every accepted "
         "graph an independent checker (over a copy taken through public accessors) demands: same operators/wiring as the flat "
         "graph up to inserted handoffs; every operator in exactly one subgraph, one loop context per subgraph; each subgraph a "
         "connected pull*-push* tree listed in topological order (colours from node_color_map, degrees recomputed); no "
         "operator-operator edge across subgraphs or onto itself; handoffs with in-degree 1/out-degree <=1 and never adjacent; "
         "every defer_tick/defer_tick_lazy input fed by a handoff marked Tick/TickLazy (Loop/LoopLazy iff the consumer is in a "
         "nested loop) and no other handoff marked; the subgraph order a permutation with producer before consumer for every "
         "non-delay handoff, every reference producer, every borrower vs. pipe consumer and every lower vs. higher access "
         "group; each loop's subgraphs (with descendants) contiguous.",
    note="Only the compiler front half runs (no rustc, nothing executed); blocking operators other than defer_tick* declare no "
         "barrier in this tree, so 'blocking input crosses a handoff' reduces to the delay rule. Closures are trivial. The "
         "checker (~350 lines) is trusted; the borrower-before-consumer rule is taken from the partitioner's own comment.")

reg("C19", [mon("rt", "mon_dfirgraph")],
    technique="runtime monitor: partition_graph on generated programs with inserted cycles, judged against a harness-built "
              "same-tick dependency digraph decided by Kahn's algorithm",
    text="Programs: " + _GEN + ". From the flat graph handed to partition_graph the harness builds the dependency digraph "
         "(pipe edges except those into a defer_tick/defer_tick_lazy input; referenced handoff -> referencer; referencer -> the "
         "handoff's pipe consumers; lower -> higher access group per handoff; sender into a loop -> every operator of that loop "
         "and its nested loops) and decides cyclicity with Kahn: partition_graph must return Err exactly when it is cyclic, the "
         "cycle printed in the diagnostic must spell (by operator text, either orientation) a directed cycle of that digraph, "
         "the flat graph handed back in PartitionError must be unchanged, a panic is a violation, and accepted graphs also go "
         "through the C18 checker.",
    note="Loop-ingress ordering and borrower-before-consumer are part of the dependency graph (DESIGN.md: loop blocks run "
         "atomically; a borrowed handoff is drained by its consumer). Cycles inside one loop block are rejected earlier by "
         "the flat-graph builder and are only counted. Ambiguous operator texts (e.g. several `union()`) are matched "
         "existentially.")

reg("C20", [mon("rt", "mon_dfirgraph")],
    technique="runtime monitor: eliminate_extra_unions_tees / merge_modules / serde_json round trip of the real graphs compared "
              "with independent recomputation on abstract copies",
    text="Programs: " + _GEN + ". (a) the graph after eliminate_extra_unions_tees must equal the flat graph with every "
         "1-in-1-out union/tee contracted (operators, arguments, src/dst port labels of surviving edges, loop membership, "
         "references, cached operator-instance ports); (b) 1-3 random edges are rerouted through a ModuleBoundary node with "
         "fresh int/path/elided port labels (what an imported module looks like) and merge_modules must restore exactly the "
         "original wiring, or report 'did not match' when one side is relabelled; (c) the partitioned graph is serialised with "
         "serde_json, reloaded and completed with insert_node_op_insts_all exactly as Dfir::new does: identical nodes (token "
         "strings, raw arguments, handoff kinds), edges+ports (ids and order), subgraphs, delay types, order, loops, resolved "
         "references, operator instances, identical mermaid/dot renderings, and identical as_code output up to source locations.",
    note="merge_modules is not reachable from surface syntax in this tree (FlatGraphBuilder never creates module boundaries), "
         "so boundaries are spliced in through DfirGraph's public API. Spans are not serialised by design, hence as_code is "
         "compared modulo the loc_* suffixes and only for programs without # references.")

reg("C42", [mon("rt", "mon_dfirgraph", args=["--part", "dfir"])],
    technique="runtime monitor: repeated compilation of generated DFIR programs in one process and in separate processes, "
              "comparing partitioned-graph JSON and generated token text",
    text="Covers DFIR programs: 300 / 5 000 seeded random DFIR texts (same generator as C18, >=2 loops, references and "
         "delays included) are each compiled with build_dfir_code three times in-process (every std HashMap gets a fresh "
         "RandomState, allocations in between) and once in each of three child processes with differently perturbed heaps; "
         "outcome class, serde_json of the partitioned graph, the token-stream text of the generated code and the diagnostics "
         "must be identical everywhere.",
    note="Same machine, same toolchain; not across platforms. The Hydro half of C42 is a separate stage.")
