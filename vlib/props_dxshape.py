from .registry import reg, custom

_T = ("generated dfir_syntax! programs compiled by rustc with the real proc-macro (one generated cargo workspace per "
      "(seed, tier), shared by C22/C25/C26), driven with per-tick input histories")

reg("C22",
    [custom("vlib.drv_dxshape:run")],
    engine="dx_shape",
    technique="runtime monitor: differential execution of shape variants of generated dfir_syntax! programs "
              "(pull/push colour flips measured with the real front end), per-variant compile outcome",
    text="32 (quick) / 200 (thorough) seeded base programs over a 27-operator catalogue (all persistence variants, defer_tick "
         "cycles), each with 3-6 semantically identical shape variants (identity/map(|x| x)/tee+null/unary union or tee/"
         "union with an empty source/handoff() on random edges, shuffled declaration order) selected so that operators "
         "flip between pull and push and subgraphs split or merge; every program starts with a binary operator (anti_join, "
         "difference, join, cross_singleton, zip; persistence combinations incl. the mixed 'tick/'static ones cycle with the "
         "group) fed inline from the sources, and always gets variants with a handoff/tee on input 0 only, on input 1 only "
         "and on both; two thirds of the histories are sparse (40 % empty batches per source and tick, 3x3 item domain); all variants must compile or none (front end observed "
         "in-process, rustc per crate with a one-crate-per-program second pass), and every compiled variant must produce the "
         "base variant's per-tick trace on 200 / 600 random histories (sequences where order is documented, multisets "
         "otherwise). " + _T,
    note="Oracle = the sibling variant (no reference interpreter); multi-input operators are always pull, so flips concern the "
         "20 unary operators; order-sensitive operators (enumerate, zip, scan, non-commutative fold) are only placed on "
         "streams whose order is defined. Only differences at for_each sinks are violations; the inspect taps behind every "
         "stateful operator (present in all variants) only attribute a difference to the operator whose output differs first "
         "(whether a mid-pipeline inspect runs at all legitimately depends on the shape, e.g. cross_singleton short-circuits). "
         "Programs have <= 3 sources, <= ~14 operators.")

reg("C25",
    [custom("vlib.drv_dxshape:run")],
    engine="dx_shape",
    technique="runtime monitor: generated programs whose closures log every value seen through #refs, judged against a "
              "plain-Rust model of the settled state and the access-group order",
    text="24 (quick) / 80 (thorough) seeded programs with 1-3 shared states (fold->singleton(), reduce->optional(), "
         "handoff(); 'tick and 'static; 1-3 producers at varying subgraph distance, optionally through defer_tick) and 2-5 "
         "closures (map/filter/inspect/for_each/flat_map/filter_map) holding #x, #mut x, #{N} x, #{N} mut x on 1-2 states, "
         "declaration order shuffled; 200 / 2 000 histories each. Every read must equal the value after all same-tick "
         "producers and all lower groups' mutations; within a tick no item of a higher group may be processed before an item "
         "of a lower group on the same state; shared readers of a group see one value. " + _T,
    note="The model mirrors the closures' pure functions (shared vocabulary in dx_shape::rt); mutators are replayed in the "
         "observed item order, so no assumption is made about item order inside one closure. Hydro-level by_ref/by_mut "
         "capture is not exercised here.")

reg("C26",
    [custom("vlib.drv_dxshape:run")],
    engine="dx_shape",
    technique="runtime monitor: generated nested-loop programs with per-run taps, judged against a small explicit reference "
              "of the documented loop semantics and against the runtime's own subgraph run counters",
    text="24 (quick) / 80 (thorough) seeded programs with 1-2 root-level loops and nested loops to depth 3 (batch / "
         "batch_lazy entries, all_iterations exits, countdown / bounded-reachability / one-shot feedback through defer_tick "
         "or defer_tick_lazy, child loops inside feedback paths, sibling loops); 200 / 2 000 histories each. Per tap and "
         "tick the sequence of per-run item multisets, and per loop and tick the number of body runs, must equal the "
         "reference (re-run iff a non-lazy entry or loop-delayed buffer is non-empty; defer_tick = exactly one iteration; "
         "batch releases once; all_iterations collects all runs; root-level loop <= 1 run per tick); a run exceeding "
         "reference + 2 body runs is reported as not reaching the fixpoint. " + _T,
    note="The reference (~150 lines) is written from the operator docs and the loop tests; unique::<'tick> inside loops is "
         "modelled as documented (state cleared at end of tick). Only stateless operators plus unique appear inside loops.")
