"""C14 — sinktools sink adaptors (engine rt/mon_sinks)."""
from .registry import reg, mon, miri

reg("C14", [mon("rt", "mon_sinks"), miri("rt", "mon_sinks", shards_quick=1, shards_thorough=8)],
    technique="runtime monitor: real sinktools adaptors driven by a Sink-contract-obeying driver on a scripted "
              "executor with counting wakers; scripted CheckSinks record every downstream call; protocol checker "
              "+ std-iterator reference model over the recorded history; Miri over the same harness (demux_var unsafe)",
    text="Every sinktools adaptor (map, filter, filter_map, inspect, flat_map, flatten, unzip, for_each, try_for_each, "
         "send_iter, send_stream, demux_map, demux_map_lazy, demux_var with 2/3 sinks, LazySink, LazySource, "
         "LazySinkSource and five SinkBuild chains) is run on all item sequences of length <= 4 x every placement of "
         "<= 2 (quick) / <= 3 (thorough) Pending answers per inner sink and per phase (ready/flush/close), as the full "
         "product across the 2-3 inner sinks of unzip/demux, with sticky and fickle sinks, one injected error at every "
         "(sink, phase, call) position, lazy init futures with scripted Pendings / error outcomes and both halves of "
         "LazySinkSource on two tasks under every short schedule; plus 20 000 / 1 000 000 random runs of length <= 30. "
         "Judged: exactly-once in-order delivery per inner sink, start_send only after that sink's poll_ready Ready(Ok), "
         "flush/close/error propagation, at-most-once initialisation, no lost wake-up at quiescence, no panic.",
    note="Trusted: the ~250-line oracle (judge.rs) and the scripted CheckSink/executor. Bounds for fickle multi-sink "
         "products are smaller than for sticky ones (stated in the evidence rule). HashMap iteration order inside "
         "demux_map is not controlled. Panics on unknown demux keys / out-of-range indices are outside the property "
         "and not exercised. Dropping a half of LazySinkSource mid-run is not explored.")
