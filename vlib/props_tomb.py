"""Registry fragment of builder "tomb": C05 (tombstone lattices) and C07 (shipped lattice bimorphisms)."""
from .registry import reg, mon, add_stage

reg("C05", [mon("rt", "mon_tomb")],
    technique="runtime monitor: real Set/MapUnionWithTombstones (HashSet, Roaring, FST tombstone backends) driven through "
              "bounded-exhaustive and random merge histories in every order; as_reveal_ref() after each merge judged by a "
              "BTreeSet/BTreeMap model (live = U live - U tombs, tombs = U tombs)",
    text="Every multiset of 2 replica states out of all 64 (live,tombs) states over 3 items (quick: also every triple of the 27 "
         "valid states; thorough: every triple of all 64), every pair of all 512 map states over 3 keys x 3 value codes "
         "(Max<u8> and SetUnion values incl. bottom; FST backend on the 64-state 2-key sub-universe), each in every distinct "
         "merge order and with same-type, Vec-backed and singleton-delta operands, plus 5 000 (thorough 50 000) random 4- "
         "(5-)replica histories over 3..8 items (u64 items spanning several 32-bit words, strings sharing prefixes) in up to 24 "
         "orders and tree-shaped merge plans. After every merge the real state must equal the model, never hold an item both "
         "live and tombstoned, never show again an item that was deleted earlier in either lineage, report the right changed "
         "flag, be independent of the order and identical across the three backends; partial_cmp/== of the HashSet-backed "
         "types must equal the merge-induced order on all pairs of valid states.",
    note="Histories whose inputs already hold an item both live and tombstoned are only required not to resurrect deleted "
         "items. The FST backend (each merge rebuilds the FST, ~100 us) runs a sampled share of the orders of each history; "
         "Roaring/FST implement no PartialOrd/PartialEq, so order/equality is only judged for the HashSet backend. Domains "
         "beyond 8 items and histories beyond 5 replicas are not explored.")

reg("C07", [mon("rt", "mon_morph")],
    technique="runtime monitor: every shipped lattice bimorphism run on base, delta and crate-merged arguments; outputs read "
              "back as sets of tuples and judged against set union and a nested-loop specification",
    text="For CartesianProductBimorphism (5 combinations of HashSet/BTreeSet/Vec/Singleton/Option/Array operands and "
         "HashSet/BTreeSet/Vec outputs), KeyedBimorphism<_, CartesianProduct> (4 combinations of HashMap/BTreeMap/VecMap/"
         "Singleton/Option maps, incl. bottom-valued entries), PairBimorphism (set x max, max x set) and the GHT bimorphisms "
         "(cartesian product at roots and leaves, value-type product on tries and leaves, node-keyed join over 1 and 2 key "
         "levels, DeepJoinLatticeBimorphism for three trie shapes, GhtBimorphism wrapper): all triples (a, delta, b) and "
         "(a, b, delta) over all subsets of a 3-element domain / all 25 maps over 2 keys x 2 values / all 16 relations over "
         "{0,1}^2 / all relations of <=2 (thorough <=3) rows over {0,1}^3, plus 2 000 (thorough 40 000) random larger values "
         "per bimorphism. Checked: f(a merge delta, b) = f(a,b) U f(delta,b) and symmetrically, the same through the crate's "
         "own merge of the two partial outputs, and each output against the cartesian product / per-key product / relational "
         "join computed by nested loops.",
    note="Outputs are compared as sets of tuples (multiplicities in Vec outputs and empty trie nodes are invisible, as are "
         "bottom-valued map entries); element type is u8 throughout; GHT tries use the VariadicHashSetStd leaf storage the "
         "lattice impls require. Tries deeper than 2 key levels are not instantiated.")

# The tombstone lattices' share of the crate-wide lattice laws (mon_lattices does not instantiate
# SetUnionWithTombstones / MapUnionWithTombstones): same binary, judged clause by clause.
add_stage("C01", mon("rt", "mon_tomb"))
add_stage("C02", mon("rt", "mon_tomb"))
add_stage("C03", mon("rt", "mon_tomb"))
