from .registry import reg, mon, miri

reg("C12", [mon("rt", "mon_push"), miri("rt", "mon_push", shards_quick=1, shards_thorough=8)],
    technique="runtime monitor: the real push combinators are driven over call-recording downstreams whose "
              "poll_ready/poll_finalize answers are explored by DFS (every Done/Pending pattern within a Pending "
              "budget) or drawn at random; the recorded history is judged against iterator reference semantics "
              "and the push-protocol rules; Miri re-runs a small slice (demux_var unsafe)",
    text="For 27 combinators (map, filter, filter_map, inspect, flat_map, flatten, for_each, vec_push, fanout, unzip, "
         "demux_var x2/x3, fold, reduce, accumulate(sort), sort, fold_keyed, reduce_keyed, persist, state_push, "
         "resolve_futures, flat_map_stream, flatten_stream, filter_map_async, sink, sink_compat, pull::send_push) and 12 "
         "depth-2/3 compositions: every input over {0,1,2} of length <=4 (<=3 for some 3-downstream spaces), every "
         "previous-epoch/current-epoch split for stateful operators, sticky and fickle downstreams, and every placement of "
         "<=2 (quick) / <=3 (thorough) Pending answers per downstream and per phase (ready/finalize) and per inner "
         "future/stream, all combinations across the 2-3 downstreams; plus 20 000 / 10^6 random runs of length <=30 with "
         "Pending density 0-60 %. Each run is checked for: exact items per downstream (order, or as a map for keyed "
         "operators), send only after that downstream's poll_ready -> Done, no send after its poll_finalize began, every "
         "downstream finalized to Done after its last item before the combinator reports Done, Pending returned only if "
         "something below answered Pending in that call, no panic, no livelock (step cap).",
    note="Trusted: the ~40 reference functions (std iterator one-liners), the CheckPush/driver harness (~500 lines). "
         "Not explored: inputs longer than 30, more than 3 downstreams, non-unit Meta, waker registration (CheckPush uses "
         "the unit context, inner futures self-wake), size_hint values (called once, not judged), errors from wrapped "
         "futures::Sink (Infallible). Re-polling a downstream that already answered Done (ready_both!) is counted, not "
         "judged. In the thorough tier five composition families keep the quick bounds (memory of the distinct-case set).")
